package main

// Path summaries of the buffer primitives (p9/buffer.go).  The codec rules need to know what
// each primitive puts on / takes off the wire; instead of matching one spelling of the body,
// the (tiny, loop-free or single-loop) bodies are enumerated path by path - which buffer
// operations run, under which decisions, and what is returned - and the paths are classified:
// a fixed-width read is "consume(K) succeeded → the little-endian value of exactly those K
// bytes; failed → 0", however the if/else is arranged or the locals are called.

import (
	"go/ast"
	"go/token"
	"go/types"
	"strings"
)

type primOp struct {
	key  string // callee key ("p9.buffer.consume"), builtin name ("copy", "make") or "loop"
	call *ast.CallExpr
	lhs  []types.Object // variables the results are bound to (nil entries for blanks)
	stmt ast.Stmt
}

type primCond struct {
	expr ast.Expr
	val  bool
	at   int // number of ops executed before the decision
	// a decision taken inside a private predicate helper that was spliced in at its call
	// (if !b.ensure(n) {...}): the call and the helper, to render expr in the caller's terms
	inCall *ast.CallExpr
	inDecl *ast.FuncDecl
}

// primLoaded gives the path enumeration access to the declarations of private helpers.
var primLoaded *Loaded

type primPath struct {
	ops   []primOp
	conds []primCond
	ret   *ast.ReturnStmt
	done  bool
}

func (p primPath) clone() primPath {
	q := primPath{ret: p.ret, done: p.done}
	q.ops = append([]primOp{}, p.ops...)
	q.conds = append([]primCond{}, p.conds...)
	return q
}

// primPaths enumerates the paths of a small function body.  Loops are not unrolled: a loop is
// one op (key "loop") carrying the statement.  ok=false when the body uses constructs the
// enumeration does not model (switch, goto, labels, defer, closures).
func primPaths(info *types.Info, body *ast.BlockStmt) (paths []primPath, ok bool) {
	ok = true
	var run func(list []ast.Stmt, in []primPath) []primPath
	callsOf := func(n ast.Node) []*ast.CallExpr {
		var out []*ast.CallExpr
		var walk func(m ast.Node)
		walk = func(m ast.Node) {
			ast.Inspect(m, func(c ast.Node) bool {
				if c == nil || c == m {
					return true
				}
				switch v := c.(type) {
				case *ast.FuncLit:
					ok = false
					return false
				case *ast.CallExpr:
					walk(v) // arguments first
					out = append(out, v)
					return false
				}
				return true
			})
		}
		if c, isCall := n.(*ast.CallExpr); isCall {
			walk(c)
			out = append(out, c)
		} else {
			walk(n)
		}
		return out
	}
	opKey := func(c *ast.CallExpr) string {
		if k := calleeKey(info, c); k != "" {
			return k
		}
		if id, isId := unparen(c.Fun).(*ast.Ident); isId {
			if _, isB := info.Uses[id].(*types.Builtin); isB {
				return id.Name
			}
		}
		if tv, has := info.Types[c.Fun]; has && tv.IsType() {
			return "conv"
		}
		return "?"
	}
	addOps := func(p *primPath, n ast.Node, st ast.Stmt, lhs []ast.Expr, rhs ast.Expr) {
		for _, c := range callsOf(n) {
			op := primOp{key: opKey(c), call: c, stmt: st}
			if rhs != nil && unparen(rhs) == ast.Expr(c) {
				for _, l := range lhs {
					op.lhs = append(op.lhs, objOf(info, l))
				}
			}
			if op.key == "conv" || op.key == "len" {
				continue
			}
			p.ops = append(p.ops, op)
		}
	}
	var stmt func(s ast.Stmt, in []primPath) []primPath
	stmt = func(s ast.Stmt, in []primPath) []primPath {
		var out []primPath
		live := func() []primPath {
			var l []primPath
			for _, p := range in {
				if p.done {
					out = append(out, p)
				} else {
					l = append(l, p)
				}
			}
			return l
		}
		switch v := s.(type) {
		case *ast.BlockStmt:
			return run(v.List, in)
		case *ast.ReturnStmt:
			for _, p := range live() {
				addOps(&p, v, v, nil, nil)
				p.ret, p.done = v, true
				out = append(out, p)
			}
			return out
		case *ast.IfStmt:
			cur := live()
			if v.Init != nil {
				cur = stmt(v.Init, cur)
			}
			for _, p := range cur {
				if p.done {
					out = append(out, p)
					continue
				}
				// A private predicate helper that did not exist in the pinned tree and whose
				// every path returns a constant: its paths are spliced in, each continuing on
				// the side its result selects.
				if hp, neg, call, decl, spliced := splicePredicate(info, v.Cond); spliced {
					for _, a := range call.Args {
						addOps(&p, a, v, nil, nil)
					}
					for _, h := range hp {
						q := p.clone()
						for _, c := range h.conds {
							c.at += len(q.ops)
							if c.inCall == nil {
								c.inCall, c.inDecl = call, decl
							}
							q.conds = append(q.conds, c)
						}
						q.ops = append(q.ops, h.ops...)
						tv, _ := info.Types[h.ret.Results[0]]
						if (tv.Value.String() == "true") != neg {
							out = append(out, run(v.Body.List, []primPath{q})...)
						} else if v.Else != nil {
							out = append(out, stmt(v.Else, []primPath{q})...)
						} else {
							out = append(out, q)
						}
					}
					continue
				}
				addOps(&p, v.Cond, v, nil, nil)
				t := p.clone()
				t.conds = append(t.conds, primCond{expr: v.Cond, val: true, at: len(t.ops)})
				out = append(out, run(v.Body.List, []primPath{t})...)
				f := p.clone()
				f.conds = append(f.conds, primCond{expr: v.Cond, val: false, at: len(f.ops)})
				if v.Else != nil {
					out = append(out, stmt(v.Else, []primPath{f})...)
				} else {
					out = append(out, f)
				}
			}
			return out
		case *ast.ForStmt, *ast.RangeStmt:
			for _, p := range live() {
				p.ops = append(p.ops, primOp{key: "loop", stmt: v})
				out = append(out, p)
			}
			return out
		case *ast.AssignStmt:
			for _, p := range live() {
				if len(v.Rhs) == 1 {
					addOps(&p, v, v, v.Lhs, v.Rhs[0])
				} else {
					for i, r := range v.Rhs {
						if i < len(v.Lhs) {
							addOps(&p, r, v, v.Lhs[i:i+1], r)
						}
					}
				}
				// an assignment whose target is an indexed/selected location is an op of its own
				for _, l := range v.Lhs {
					switch unparen(l).(type) {
					case *ast.SelectorExpr, *ast.IndexExpr:
						p.ops = append(p.ops, primOp{key: "store", stmt: v})
					}
				}
				out = append(out, p)
			}
			return out
		case *ast.ExprStmt, *ast.IncDecStmt:
			for _, p := range live() {
				addOps(&p, v, v, nil, nil)
				out = append(out, p)
			}
			return out
		case *ast.DeclStmt:
			for _, p := range live() {
				if gd, isGD := v.Decl.(*ast.GenDecl); isGD {
					for _, sp := range gd.Specs {
						if vs, isVS := sp.(*ast.ValueSpec); isVS {
							for i, val := range vs.Values {
								var lhs []ast.Expr
								if len(vs.Values) == 1 {
									for _, nm := range vs.Names {
										lhs = append(lhs, nm)
									}
								} else if i < len(vs.Names) {
									lhs = []ast.Expr{vs.Names[i]}
								}
								addOps(&p, val, v, lhs, val)
							}
						}
					}
				}
				out = append(out, p)
			}
			return out
		case *ast.EmptyStmt:
			return in
		default:
			ok = false
			return in
		}
	}
	run = func(list []ast.Stmt, in []primPath) []primPath {
		cur := in
		for _, s := range list {
			cur = stmt(s, cur)
		}
		return cur
	}
	paths = run(body.List, []primPath{{}})
	if len(paths) > 32 {
		ok = false
	}
	return
}

// decided reports how the path decided a condition that is the variable obj or its negation.
func (p primPath) decided(info *types.Info, obj types.Object) (val, found bool) {
	for _, c := range p.conds {
		e := unparen(c.expr)
		neg := false
		for {
			u, isNot := e.(*ast.UnaryExpr)
			if !isNot || u.Op != token.NOT {
				break
			}
			neg = !neg
			e = unparen(u.X)
		}
		if objOf(info, e) == obj && obj != nil {
			return c.val != neg, true
		}
	}
	return false, false
}

// atomDecided reports how the path decided the canonical atom key (see atomOf).
func (p primPath) atomDecided(res *resolver, info *types.Info, key string) (val, found bool) {
	want := nospace(key)
	for _, c := range p.conds {
		cres := res
		if c.inCall != nil && primLoaded != nil {
			cres = res.instantiate(c.inCall, c.inDecl, newResolver(primLoaded, info, c.inDecl))
			cres.frame = "" // a predicate helper's conditions speak about its parameters only
			cres.exprFuncs = res.exprFuncs
		}
		k, pol := atomOf(cres, info, nil, c.expr)
		if nospace(k) == want {
			return c.val == pol, true
		}
	}
	return false, false
}

// splicePredicate: cond is h(args) or !h(args) for a helper h that may be spliced (see
// primPaths); it returns h's paths, whether the call is negated, the call and h's declaration.
func splicePredicate(info *types.Info, cond ast.Expr) (paths []primPath, neg bool, call *ast.CallExpr, decl *ast.FuncDecl, ok bool) {
	if primLoaded == nil {
		return
	}
	e := unparen(cond)
	for {
		u, isNot := e.(*ast.UnaryExpr)
		if !isNot || u.Op != token.NOT {
			break
		}
		neg = !neg
		e = unparen(u.X)
	}
	c, isCall := e.(*ast.CallExpr)
	if !isCall {
		return
	}
	fi := primLoaded.FuncOf(callee(info, c))
	if fi == nil || fi.Decl.Body == nil || pinnedFuncs[fi.Key] || fi.Obj.Exported() || fi.Pkg.TypesInfo != info {
		return
	}
	sig := fi.Obj.Type().(*types.Signature)
	if sig.Results().Len() != 1 {
		return
	}
	if b, isB := sig.Results().At(0).Type().Underlying().(*types.Basic); !isB || b.Kind() != types.Bool {
		return
	}
	hp, pok := primPaths(info, fi.Decl.Body)
	if !pok || len(hp) == 0 || len(hp) > 8 {
		return
	}
	for _, h := range hp {
		if h.ret == nil || len(h.ret.Results) != 1 {
			return
		}
		tv, has := info.Types[h.ret.Results[0]]
		if !has || tv.Value == nil {
			return
		}
	}
	return hp, neg, c, fi.Decl, true
}

func (p primPath) opsWithKey(key string) []primOp {
	var out []primOp
	for _, o := range p.ops {
		if o.key == key {
			out = append(out, o)
		}
	}
	return out
}

func (p primPath) retExpr() ast.Expr {
	if p.ret == nil || len(p.ret.Results) != 1 {
		return nil
	}
	return p.ret.Results[0]
}

// --- classification ---------------------------------------------------------------------

// readBasePrim: every path performs the one consume(K); where it succeeded the function returns
// the little-endian decoding of exactly those K bytes, where it failed it returns 0.
func (x *codecX) readBasePrim(fi *FuncInfo) (bufPrim, bool, error) {
	paths, ok := primPaths(x.info, fi.Decl.Body)
	if !ok || len(paths) < 2 {
		return bufPrim{}, false, nil
	}
	var consume *ast.CallExpr
	for _, p := range paths {
		cs := p.opsWithKey("p9.buffer.consume")
		if len(cs) != 1 || len(p.ops) > 2 {
			return bufPrim{}, false, nil
		}
		if consume == nil {
			consume = cs[0].call
		} else if consume != cs[0].call {
			return bufPrim{}, false, nil
		}
	}
	k, isC := constInt(x.info, consume.Args[0])
	if !isC {
		return bufPrim{}, false, nil
	}
	kind := ""
	nOK, nFail := 0, 0
	for _, p := range paths {
		op := p.opsWithKey("p9.buffer.consume")[0]
		if len(op.lhs) != 2 || op.lhs[0] == nil || op.lhs[1] == nil {
			return bufPrim{}, true, cerr(consume.Pos(), "%s: the results of consume are not both kept", fi.Key)
		}
		succ, found := p.decided(x.info, op.lhs[1])
		if !found {
			return bufPrim{}, true, cerr(consume.Pos(), "%s: consume result is not checked before use", fi.Key)
		}
		re := unparen(p.retExpr())
		if re == nil {
			return bufPrim{}, true, cerr(fi.Decl.Pos(), "%s: a path returns nothing", fi.Key)
		}
		if !succ {
			if c, isC := constInt(x.info, re); !isC || c != 0 {
				return bufPrim{}, true, cerr(re.Pos(), "%s: a failed consume does not yield 0", fi.Key)
			}
			nFail++
			continue
		}
		nOK++
		// strip conversions
		for {
			c, isCall := re.(*ast.CallExpr)
			if isCall && len(c.Args) == 1 && x.info.Types[c.Fun].IsType() {
				re = unparen(c.Args[0])
				continue
			}
			break
		}
		got := ""
		switch v := re.(type) {
		case *ast.CallExpr:
			ck := calleeKey(x.info, v)
			if strings.Contains(ck, "encoding/binary.") && strings.Contains(ck, ".Uint") {
				if !x.isOrderVar(v.Fun) {
					return bufPrim{}, true, cerr(v.Pos(), "%s: byte order is not the package variable 'order'", fi.Key)
				}
				w := map[string]int{"16": 2, "32": 4, "64": 8}[ck[strings.LastIndex(ck, "Uint")+4:]]
				if w == 0 || int(k) != w || len(v.Args) != 1 || objOf(x.info, v.Args[0]) != op.lhs[0] {
					return bufPrim{}, true, cerr(v.Pos(), "%s: consumes %d bytes but decodes %s", fi.Key, k, ck)
				}
				got = baseWidth[w]
			}
		case *ast.IndexExpr:
			if i, isC := constInt(x.info, v.Index); isC && i == 0 && k == 1 && objOf(x.info, v.X) == op.lhs[0] {
				got = "u8"
			}
		}
		if got == "" || kind != "" && kind != got {
			return bufPrim{}, true, cerr(re.Pos(), "%s: the value returned after consume(%d) is not the decoding of those bytes", fi.Key, k)
		}
		kind = got
	}
	if nOK == 0 || nFail == 0 {
		return bufPrim{}, true, cerr(fi.Decl.Pos(), "%s: consume result is not checked before use", fi.Key)
	}
	return bufPrim{Kind: kind}, true, nil
}

// readStringPrim: u16 length L; where L bytes are not present the buffer is marked overrun and
// "" returned; otherwise exactly L bytes are taken (byte loop over Read8, or consume(L)) and
// returned as a string.
func (x *codecX) readStringPrim(fi *FuncInfo) (bool, error) {
	paths, ok := primPaths(x.info, fi.Decl.Body)
	if !ok || len(paths) < 2 {
		return false, nil
	}
	res := newResolver(x.l, x.info, fi.Decl).withExprFuncs()
	recv := ""
	if fi.Decl.Recv != nil && len(fi.Decl.Recv.List) == 1 && len(fi.Decl.Recv.List[0].Names) == 1 {
		recv = fi.Decl.Recv.List[0].Names[0].Name
	}
	nOK, nFail := 0, 0
	for _, p := range paths {
		if len(p.ops) == 0 || p.ops[0].call == nil {
			return false, nil
		}
		lenCall := p.ops[0].call
		if pr, err := x.readPrim(callee(x.info, lenCall)); err != nil || pr.Kind != "u16" || pr.Mask {
			return false, nil
		}
		L := "int(" + res.str(lenCall) + ")"
		// has(L): len(b.data) >= L, i.e. not (L > len(b.data))
		short, found := p.atomDecided(res, x.info, L+" > len("+recv+".data)")
		if !found {
			return false, nil
		}
		re := unparen(p.retExpr())
		if re == nil {
			return false, nil
		}
		if short {
			if len(p.opsWithKey("p9.buffer.markOverrun")) == 0 {
				return true, cerr(fi.Decl.Pos(), "%s: a string longer than the rest of the frame does not mark the buffer as overrun", fi.Key)
			}
			if sv := constValue(x.info, re); sv == nil || sv.ExactString() != `""` {
				return true, cerr(re.Pos(), "%s: the overrun path does not return the empty string", fi.Key)
			}
			for _, o := range p.ops[1:] {
				if o.key != "p9.buffer.has" && o.key != "p9.buffer.markOverrun" {
					return true, cerr(fi.Decl.Pos(), "%s: the overrun path touches the buffer (%s)", fi.Key, o.key)
				}
			}
			nFail++
			continue
		}
		nOK++
		// return string(bs)
		conv, isCall := re.(*ast.CallExpr)
		if !isCall || len(conv.Args) != 1 || !x.info.Types[conv.Fun].IsType() {
			return true, cerr(re.Pos(), "%s: does not return the bytes read as a string", fi.Key)
		}
		bs := objOf(x.info, conv.Args[0])
		var rest []primOp
		for _, o := range p.ops[1:] {
			if o.key != "p9.buffer.has" {
				rest = append(rest, o)
			}
		}
		switch {
		case len(rest) == 1 && rest[0].key == "p9.buffer.consume":
			// bs, _ := b.consume(L)
			if nospace(res.str(rest[0].call.Args[0])) != nospace(L) || len(rest[0].lhs) < 1 || rest[0].lhs[0] != bs || bs == nil {
				return true, cerr(rest[0].call.Pos(), "%s: does not take exactly the announced number of bytes", fi.Key)
			}
		case len(rest) == 2 && rest[0].key == "make" && rest[1].key == "loop":
			// bs := make([]byte, L); for i := 0; i < int(L); i++ { bs[i] = byte(b.Read8()) }
			mk := rest[0]
			if len(mk.lhs) != 1 || mk.lhs[0] != bs || bs == nil || len(mk.call.Args) != 2 || nospace(res.str(mk.call.Args[1])) != nospace(res.str(lenCall)) && nospace(res.str(mk.call.Args[1])) != nospace(L) {
				return true, cerr(mk.call.Pos(), "%s: the byte slice is not made with the announced length", fi.Key)
			}
			var ivar types.Object
			var loopBody *ast.BlockStmt
			if rs, isRange := rest[1].stmt.(*ast.RangeStmt); isRange {
				// for i := range bs {...}: once per element of the slice just made with length L
				kid, isId := rs.Key.(*ast.Ident)
				if !isId || rs.Value != nil || rs.Tok != token.DEFINE || objOf(x.info, rs.X) != bs || len(rs.Body.List) != 1 {
					return false, nil
				}
				ivar, loopBody = x.info.Defs[kid], rs.Body
			} else {
				fs, isFor := rest[1].stmt.(*ast.ForStmt)
				if !isFor || fs.Cond == nil || len(fs.Body.List) != 1 {
					return false, nil
				}
				iv, okC := x.simpleCounter(fs)
				be, isBin := fs.Cond.(*ast.BinaryExpr)
				if !okC || !isBin || be.Op != token.LSS || objOf(x.info, be.X) != iv || nospace(res.str(be.Y)) != nospace(L) {
					return true, cerr(fs.Pos(), "%s: the byte loop does not run exactly the announced number of times", fi.Key)
				}
				ivar, loopBody = iv, fs.Body
			}
			la, isAs := loopBody.List[0].(*ast.AssignStmt)
			if !isAs || len(la.Lhs) != 1 || len(la.Rhs) != 1 {
				return false, nil
			}
			ix, isIx := la.Lhs[0].(*ast.IndexExpr)
			if !isIx || objOf(x.info, ix.X) != bs || objOf(x.info, ix.Index) != ivar {
				return false, nil
			}
			rv, _, _ := x.stripConvMask(la.Rhs[0])
			rc, isC := unparen(rv).(*ast.CallExpr)
			if !isC {
				return false, nil
			}
			if pr, err := x.readPrim(callee(x.info, rc)); err != nil || pr.Kind != "u8" {
				return false, nil
			}
		default:
			return false, nil
		}
	}
	return nOK > 0 && nFail > 0, nil
}

// writeStringPrim: u16 length of the string, then exactly its bytes (byte loop over Write8, or
// copy(b.append(len(s)), s)).
func (x *codecX) writeStringPrim(fi *FuncInfo, param types.Object) bool {
	paths, ok := primPaths(x.info, fi.Decl.Body)
	if !ok || len(paths) != 1 || len(paths[0].ops) < 2 {
		return false
	}
	ops := paths[0].ops
	// first: a u16 write of len(s)
	w := ops[0]
	if w.call == nil || len(w.call.Args) != 1 {
		return false
	}
	if p, err := x.writePrim(callee(x.info, w.call)); err != nil || p.Kind != "u16" || p.Mask {
		return false
	}
	if arg, _, _ := x.stripConvMask(w.call.Args[0]); !x.isLenOf(arg, param) {
		return false
	}
	rest := ops[1:]
	switch {
	case len(rest) == 1 && rest[0].key == "loop":
		fs, isFor := rest[0].stmt.(*ast.ForStmt)
		if !isFor {
			// for i := range s / for _, c := range []byte(s) are not modelled
			return false
		}
		return x.isWriteStringBody([]ast.Stmt{w.stmt, fs}, param)
	case len(rest) == 2 && rest[0].key == "p9.buffer.append" && rest[1].key == "copy":
		// copy(b.append(len(s)), s)
		ap, cp := rest[0].call, rest[1].call
		if len(ap.Args) != 1 || !x.isLenOf(ap.Args[0], param) || len(cp.Args) != 2 {
			return false
		}
		return unparen(cp.Args[0]) == ast.Expr(ap) && objOf(x.info, cp.Args[1]) == param
	}
	return false
}
