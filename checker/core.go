package main

import (
	"encoding/json"
	"fmt"
	"go/ast"
	"go/token"
	"os"
	"strings"
)

// Oblig is one proof obligation generated from a construct of the source tree.
type Oblig struct {
	Rule      string `json:"rule"`      // e.g. C07.r2
	Construct string `json:"construct"` // stable key: function / call / field, never a line number
	Pos       string `json:"pos"`       // file:line:col, for the reader only
	Status    string `json:"status"`    // ok | fail | undecided
	Detail    string `json:"detail"`
	Config    string `json:"config"`
}

// Run collects the obligations of one property on one build configuration.
type Run struct {
	Prop    string
	Tier    string
	Config  string
	L       *Loaded
	Obs     []Oblig
	Samples []any
	Notes   []string
	stats   map[string]int
	alias   map[string]string // rule renaming for checks shared between properties
	// borrow (see below): while a whole check of another property runs on behalf of this one,
	// only the listed rules are kept, under the names given
	borrowed map[string]string
}

// borrow runs the check of another property and keeps the obligations of the listed rules
// (named as that check names them) under the given names of this property.  A necessary
// condition shared by two properties is decided by one rule, not by two copies of it.
func (r *Run) borrow(fn func(*Run), rules map[string]string) {
	saveB, saveA, saveN, saveS := r.borrowed, r.alias, r.Notes, r.Samples
	r.borrowed, r.alias = rules, nil
	fn(r)
	r.borrowed, r.alias, r.Notes, r.Samples = saveB, saveA, saveN, saveS
}

func (r *Run) pos(p token.Pos) string {
	if !p.IsValid() {
		return ""
	}
	return r.L.relPos(p)
}

func (r *Run) add(rule, construct string, p token.Pos, status, detail string) {
	if a, ok := r.alias[rule]; ok {
		rule = a
	}
	if r.borrowed != nil {
		b, ok := r.borrowed[rule]
		if !ok {
			return
		}
		rule = b
	}
	if !strings.HasPrefix(rule, r.Prop) {
		rule = r.Prop + "." + rule
	}
	r.Obs = append(r.Obs, Oblig{Rule: rule, Construct: construct, Pos: r.pos(p), Status: status, Detail: detail, Config: r.Config})
}

func (r *Run) ok(rule, construct string, p token.Pos, format string, a ...any) {
	r.add(rule, construct, p, "ok", fmt.Sprintf(format, a...))
}

func (r *Run) fail(rule, construct string, p token.Pos, format string, a ...any) {
	r.add(rule, construct, p, "fail", fmt.Sprintf(format, a...))
}

func (r *Run) undecided(rule, construct string, p token.Pos, format string, a ...any) {
	r.add(rule, construct, p, "undecided", fmt.Sprintf(format, a...))
}

// check records ok or fail depending on cond.
func (r *Run) check(cond bool, rule, construct string, p token.Pos, okDetail, failDetail string) bool {
	if cond {
		r.ok(rule, construct, p, "%s", okDetail)
	} else {
		r.fail(rule, construct, p, "%s", failDetail)
	}
	return cond
}

// floor fails when a rule matched fewer instances than were confirmed by hand
// on the pinned tree: a rule that matches nothing passes vacuously for ever.
func (r *Run) floor(rule string, what string, n, min int) {
	r.stats[rule+":"+what] = n
	if n < min {
		r.add(rule, "instance-floor "+what, token.NoPos, "undecided",
			fmt.Sprintf("rule matched %d %s, fewer than the %d confirmed by hand on the pinned tree; the rule's anchor no longer resolves", n, what, min))
	} else {
		r.add(rule, "instance-floor "+what, token.NoPos, "ok", fmt.Sprintf("%d %s (floor %d)", n, what, min))
	}
}

func (r *Run) note(format string, a ...any) {
	r.Notes = append(r.Notes, fmt.Sprintf(format, a...))
}

func (r *Run) sample(v any) {
	if len(r.Samples) < 24 {
		r.Samples = append(r.Samples, v)
	}
}

func (r *Run) stat(name string, n int) { r.stats[name] += n }

// mustFunc resolves a function the rules are keyed on; an unresolved anchor is
// reported (undecided) and nil is returned.
func (r *Run) mustFunc(rule, pkg, name string) *FuncInfo {
	fi := r.L.Func(pkg, name)
	if fi == nil {
		r.undecided(rule, "anchor "+pkg+"."+name, token.NoPos, "function %s.%s not found in the current tree (renamed or removed): the rule cannot be evaluated", pkg, name)
	}
	return fi
}

// --- known findings ----------------------------------------------------------

type KnownFinding struct {
	Property    string `json:"property"`
	Rule        string `json:"rule"`
	Construct   string `json:"construct"`
	WhatFails   string `json:"what_fails"`
	FailingCase string `json:"failing_case"`
}

type knownFindings struct {
	Findings []KnownFinding `json:"findings"`
	Fixed    []string       `json:"fixed"`
}

func loadKnownFindings(path string) *knownFindings {
	kf := &knownFindings{}
	b, err := os.ReadFile(path)
	if err != nil {
		return kf
	}
	if err := json.Unmarshal(b, kf); err != nil {
		fmt.Fprintf(os.Stderr, "known_findings.json: %v (ignored: nothing is suppressed)\n", err)
		return &knownFindings{}
	}
	return kf
}

// match is exact on property + rule + construct; a different violation of the
// same property is therefore still reported.
func (k *knownFindings) match(prop string, o Oblig) *KnownFinding {
	if o.Status != "fail" {
		return nil // undecided obligations are never suppressed
	}
	for i := range k.Findings {
		f := &k.Findings[i]
		if f.Property == prop && f.Rule == o.Rule && f.Construct == o.Construct {
			return f
		}
	}
	return nil
}

// --- small AST helpers -------------------------------------------------------

func unparen(e ast.Expr) ast.Expr {
	for {
		p, ok := e.(*ast.ParenExpr)
		if !ok {
			return e
		}
		e = p.X
	}
}
