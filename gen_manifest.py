#!/usr/bin/env python3
"""Regenerates /verif/MANIFEST.json from the table below (kept in one place so the
manifest stays valid while checks are added)."""
import json, sys

ENV = "GOFLAGS=-mod=mod GOPROXY=off GOSUMDB=off GOTOOLCHAIN=local GOWORK=off"
SETUP = f"cd /verif/checker && {ENV} go build -o /verif/bin/p9check ."

# property id -> (technique, level text, level note, design ref)
CLAIMED = {
 "C01": ("codec layout extraction (abstract interpretation of encode/decode ASTs) compared with an independent protocol table; encode/decode symmetry",
         "Static decision, for all 65 registered message types and all field values at once, that the wire layout built by encode and parsed by decode equals the 9P2000.L/.Google.N layout (numbering, field order, widths, string/list framing, permission masking, mask bit tables, header, payload counts, whole-entry truncation) and that decode assigns every wire item to the field encode wrote it from. Right level: the codecs are straight-line code, so layout is a static object; values never influence it.",
         "Trusts encoding/binary little-endian, the reference table transcribed from the protocol documents into checker/c01.go, and the accepted-idiom list of the extractor (anything else is reported as undecided). Strings/lists > 65535 outside the property's range. Does not execute the codec.",
         "DESIGN.md section 4 C01, section 3 A"),
 "C07": ("lock-context analysis (must-held lock sets per call site; wrapper summaries, closure inlining, interprocedural entry contexts) against the concurrency classes documented on p9.File",
         "Static decision, for every call site of a p9.File method in the server and for all interleavings and connections at once, that the lock set held on every path contains what the method's documented concurrency class requires (read: the node's opMu + renameMu:R; write: opMu:W + renameMu:R; unlink: also the entry's node; global: renameMu:W), that Open's opened-test and opened-store share one region exclusive for the fid, that parent/opened/openFlags are only touched under their documented locks, and that all references on one path share one path node. Right level: mutual exclusion is a property of which locks are held where, visible in the code shape; no schedule needs to be run.",
         "Trusts sync.RWMutex semantics; lock instances are compared structurally after resolving single-assignment local aliases (no pointer analysis available); backends are opaque; calls on a fresh, unpublished File are exempt. Does not decide liveness (C16).",
         "DESIGN.md section 4 C07, section 3 B"),
 "C09": ("path-fact (guard dominance) analysis over go/cfg with closure inlining: every backend name argument is dominated by a successful checkSafeName on the same expression; exits of checkSafeName classified by the facts that hold there",
         "Static decision, for every string and every handler at once, that no name reaches a backend File in a name position without a dominating successful checkSafeName on that very expression (or comes from the path tree / a per-element checked list), that checkSafeName returns nil only under name != \"\", no '/', != \".\", != \"..\" and EINVAL otherwise, that walks advance one component per backend call and only from references whose mode (taken from the attributes of the file just walked) is a directory, and that attach reuses that walk. Right level: the quantifier over strings is absorbed by the four comparisons in checkSafeName; the rest is dominance on the CFG.",
         "Trusts strings.Contains/IndexByte semantics; value identity of names is syntactic (same resolved expression, request fields are not reassigned between check and use - reassignment kills the fact).",
         "DESIGN.md section 4 C09, section 3 C/G"),
 "C04": ("per-handler guard-set extraction (path facts dominating each backend call, with the errno of each guard's exit), must-pass-through on handler exits (DeleteFID), success-side dominance of InsertFID, who-writes rule for the open state",
         "Static decision of the session model handler by handler: unbound fids are refused with EBADF before any effect, Tclunk/Tremove reach DeleteFID on every exit, InsertFID is reachable only after every preceding backend/walk call is known to have succeeded and only success replies follow it, the property's guard table (open state, mode, type, xattr sub-protocol, CanOpen set, Tauth/auth-fid) is contained in the guards dominating each backend call with the prescribed errno, and opened/openFlags are written only on Open's success side and in the create literal. Right level: every (state, request) edge of the model is decided by the guards of one handler, which are dominance facts of its CFG; no sequence needs to be run.",
         "Guards are matched as canonical path facts over resolved expressions (alternatives listed in checker/c04.go); an equivalent guard in an unlisted form is reported rather than assumed. The contents of the fid table over a history are not computed (only the per-step discipline).",
         "DESIGN.md section 4 C04, section 3 C/F/G, Appendix C"),
 "C08": ("success-side dominance and argument agreement between backend RenameAt/UnlinkAt and the path-tree bookkeeping calls; structural shape rules for renameChildTo/notifyNameChange/notifyDelete/markChildDeleted; fencing guard table (isDeleted) in both directions; sibling-map agreement in path_tree.go",
         "Static decision that the server's rename/unlink bookkeeping follows the backend exactly (called on the success side only, with the same directory, names and target, on every successful exit), that Trename/Tremove use the current name read under the global lock, that every moved or deleted reference and node is re-parented / re-registered / notified / fenced by code of the required shape (recursion through both child references and child nodes), that the property's fencing table dominates every path-dependent backend call with EINVAL (ENOENT for walks) while I/O and getattr stay unfenced, and that the reference maps are updated together under childMu:W. Right level: each clause is a fact about call order, arguments and guards on every path.",
         "Which object a name denotes after k operations is runtime state and is not computed; the shape rules are specific to the current structure of renameChildTo and friends (a restructuring is reported as undecided/failed rather than assumed correct).",
         "DESIGN.md section 4 C08"),
 "C05": ("ownership typestate for backend Files and balance analysis for counted fidRef references over go/cfg with closure inlining and error/ok-correlated continuations; shape rules for DecRef/TryIncRef, the fid-table API and connection teardown",
         "Static decision, on every path including every error exit, that each File obtained from the backend is closed, moved into exactly one reference, or returned (never leaked, overwritten or closed twice), that a reference's File is always a fresh backend value, that reference acquisitions and releases cancel on every exit of every handler and helper, that DecRef closes the File and releases the parent exactly on the zero transition, that only DecRef closes published Files, and that teardown waits for in-flight handlers before closing transports and dropping the table's references with every serving goroutine counted. Right level: exactly-once closing is a pairing discipline on paths; the error paths no test drives are paths of the same CFG.",
         "Assumes the File contract that a source returning an error returns no File; the numeric reference count over a whole history is not computed, only per-path pairing; Close ordering after disconnect relies on the shape of stop() and sync.WaitGroup semantics.",
         "DESIGN.md section 4 C05, section 3 D"),
 "C06": ("min/max call-count dataflow for send on every path of handleRequest, value identity of tag and message, who-may-call rules, must/may lock sets at send, handler dispatch, goroutine spawn and blocking operations, interprocedural may-held locks at backend call sites",
         "Static decision that every path of handleRequest performs exactly one send (with the tag recv returned and the handler's result, or Rlerror for a protocol error) when a reply is due and none otherwise, that only handleRequest/sendRecv write frames and each frame leaves under sendMu through one vectored write, that the handler runs with no connection lock held after a further receiver was spawned under the receive token, that the tag is cleared after the handler and before the reply, that a panic cannot cut this path, that no backend call can run and nothing blocks while a connection-wide lock may be held, and that a self-referential Tflush is answered. Right level: one reply per request is a counting fact over the paths of one function; concurrency of service is decided in its necessary-condition form (no extra serialisation point exists).",
         "Fairness and actual progress under a real scheduler are not decided. Trusts sync.Mutex/WaitGroup semantics. May-held lock sets are computed over resolved static calls (interface dispatch into handlers is modelled as entry with nothing held, which is what connState.handle guarantees by r4).",
         "DESIGN.md section 4 C06"),
 "C14": ("must-pass-through (WaitTag before Rflush), who-may-close/who-may-call rules for tag channels and ClearTag, call-graph reachability for go statements and side effects, path facts for the own-tag bypass, may-held locks at the blocking receive",
         "Static decision that Rflush is produced only after WaitTag(OldTag), that WaitTag blocks on exactly the channel StartTag registered and returns at once for idle tags, that the channel is closed only by ClearTag which runs only after cs.handle returned (no handler can start a goroutine, so all backend calls of a request are over by then), that a flush of the request's own tag bypasses the wait, that nothing reachable from the flush handler has side effects, and that WaitTag blocks with no lock held. Right level: these are ordering and reachability facts of the code; the property's quantifier over interleavings is discharged by them.",
         "Mutual flush cycles among several in-flight flushes (liveness over histories) are not decided. Trusts Go channel close/receive semantics.",
         "DESIGN.md section 4 C14"),
 "C15": ("shape rule for the panic barrier, lock-release pairing and defer-discipline on every exit of every function reachable from a handler (may-held lock sets, effect summaries over the call graph), ownership typestate/reference balance on error exits, success-only binding, no-masking rule on error variables, who-may-write rules for server-wide state",
         "Static decision that a backend panic is recovered into EFAULT behind which all handlers run, that no lock taken on behalf of a request can stay held after an error return or a recovered panic (released on every exit; by defer wherever the region can reach the backend or a callback), that Files and references obtained during a failed request are released on its error exits and lookups by defer, that the fid table is changed only on success while Tclunk/Tremove unbind regardless, that the reply's errno is the backend's own error on every exit where that error is known non-nil, and that error paths write no server-wide state. Right level: containment is a property of every error/unwinding path of the CFG, which no injected-fault test enumerates completely.",
         "What a backend that corrupts its own state does afterwards is outside the property. Trusts Go defer/recover semantics.",
         "DESIGN.md section 4 C15"),
 "C16": ("lock-order graph from interprocedural may-held lock sets at every acquisition (acyclicity and conformance to the documented hierarchy), reviewed table for same-class nesting and childMu re-entry, blocking-operation rule, guarded-by lockset table checked at every field access with must-held sets, atomic-only fields, lost-release rule",
         "Static decision for every schedule that the lock-order graph is acyclic and follows renameMu > opMu > fidMu/openMu > childMu > leaf locks, that same-class nesting happens only at reviewed sites that cannot involve the same instance, that renameMu is never re-acquired, that nothing blocks while a lock is held, that every lock taken is released on every exit, and that every access to the shared session state (fid and tag tables, path-tree maps, allocator state, shutdown flag, atomic fields) holds the lock the source assigns to it. Right level: deadlocks and data races are exactly what lock-order and lockset analyses decide for all interleavings at once; the race detector only sees the schedules a test happens to run.",
         "Liveness under a real scheduler (fairness, wake-ups) and the isolation-of-results clause are not decided beyond the necessary condition that no other cross-connection mutable state exists. Lock instances are compared structurally; childMu is judged at class granularity. Assumes the property's workload of at most one outstanding request per fid for pendingXattr and the open state.",
         "DESIGN.md section 4 C16, Appendix D"),
 "C11": ("dataflow invariants of the chunk loop from path facts at each callback call and loop exit (window bounds, lock-step accumulators, exit classification), who-may-use rule for the single-message primitives, static evaluation of the chunk size's overhead from the codec layouts",
         "Static decision of the structural necessary conditions of chunked I/O: ReadAt/WriteAt delegate to chunk with the negotiated payload size and the single-message primitives (used nowhere else); each chunk's window starts at the running total and is cut at len(p) or total+chunkSize on exactly the right branch; total and offset advance together by the count that call returned before any exit test; the loop ends on the first error, a short chunk or an exhausted buffer, never issuing an operation once the buffer is exhausted; the primitives send the right count/offset, copy a non-aliased payload and synthesise io.EOF under exactly len(Data)==0 && len(p)>0; the chunk size leaves room for header and fixed parts. Right level: explicitly partial — the arithmetic result (sum of chunks = len(p) for every size) is a runtime quantity that is not computed; what is decided are loop invariants every correct implementation must satisfy.",
         "Does not compute sums of chunk sizes or behaviour against concrete short-writing backends; these follow from r2-r4 for a reader but are not decided by the checker.",
         "DESIGN.md section 4 C11"),
 "C12": ("return-type rule and exit classification by path facts in tversion.handle, clamp-shape (reaching definitions) rules for msize and version, writer/reader table agreement between versionString's format and parseVersion's literals, dataflow from Rversion fields into the client's stores",
         "Static decision that a Tversion is always answered with an Rversion, 'unknown'/0 exactly on the msize==0 / unparsable / non-.L paths and min(requested, 4 MiB) / min(N, 7) in versionString's canonical spelling otherwise (with the same clamped values stored in the connection and sizing its buffers), that versionString and parseVersion agree segment by segment, that NewClient adopts the reply's version and msize for everything it sends afterwards and returns an error rather than a client when the reply is not a 9P2000.L version. Right level: the quantifier over msize values and version strings is absorbed by the comparisons in the code; what remains is which value flows where on which path.",
         "Trusts strconv.ParseUint/strings.Split semantics for the string space.",
         "DESIGN.md section 4 C12"),
 "C13": ("bound analysis: the length of every payload handed out by tread/treaddir is a variable clamped (reaching definitions) by a value derived from the negotiated msize minus an overhead statically evaluated from the codec layouts; static evaluation of registry.largestFixedSize from the 65 layouts; store-order and underflow-guard rules for the client's payload size",
         "Static decision that the number of bytes an Rread/Rreaddir may carry is bounded on every path by (negotiated msize − 11 or more), 11 = headerLength + FixedSize being computed from the codec rather than assumed, that no other reply carries an out-of-band payload, and that the client's payload size is roundDown(adopted msize − S, 512) with S (153, computed) covering header+fixed part of Twrite (23) and Rread (11), computed after the options and again after negotiation, with no unsigned underflow. Right level: 'never exceeds' is a bound on a length expression visible in the code; concrete frame sizes are not needed.",
         "Assumes a backend's ReadAt returns n <= len(p). Frame sizes for concrete directory contents are not computed: the limit handed to the encoder is (C01.r9 shows the encoder enforces it).",
         "DESIGN.md section 4 C13"),
 "C03": ("table extraction and composition: per-method request-field tables from the client (literals, message variables, later field assignments, Tu* wrappers) composed with per-handler backend-argument/result tables from the server; guard facts for version gating; stage-order rule on ExtractErrno",
         "Static decision that for each File method the client sets every fid field (own fid, parameter files' fids, fresh fids) and sends each parameter in exactly one request field, that the handler of that request type calls the corresponding File method on the looked-up File of the self-fid field with arguments taken from the same fields in the same positions, that results travel back through the same reply fields in the same positions, that extension messages are built only under their version predicate (thresholds 3 and 2) with the documented uid/gid dropping otherwise, that every error reply is ExtractErrno of the backend's error with exact errno values recovered through wrapped chains before the lossy sentinel table and EIO as default, and that SetXattr/RemoveXattr fail locally. Right level: transparency is the identity of a composition of two finite tables, both read from the source, so no hand-written expectation of field names is needed and all argument values are covered at once.",
         "Does not decide that bytes survive the wire (C01), that a fid denotes the right File over a history (C04/C05/C08) or chunk arithmetic (C11). Field derivations are recognised through conversions, slices, clamps and one level of helper/local indirection; anything else is reported.",
         "DESIGN.md section 4 C03, section 3 E"),
 "C10": ("shape and fact rules on the allocator, fid-release discipline from path facts at every fidPool.Put (error side of the binding request / confirmed clunk behind the closed CAS), event ordering in sendRecv (waiter stored before send, entry removed on every exit), table rules for handleOne's lookup/demultiplexing/broadcast, min/max counting of token releases in waitAndRecv",
         "Static decision that the allocator never hands out 0/NOTAG/NOFID or a value twice (under its mutex), that a fid number returns to the pool only when the server provably no longer has it bound, that a call registers its waiter before its request leaves and leaves no waiter behind on any exit, that a reply is delivered to exactly the waiter of its tag (unknown tags and wrong types rejected, Rlerror accepted), that a receive error fails every pending call, and that the receive token is given back exactly once on every path that took it. Right level: no-hang/no-cross-delivery reduce to these pairing and ordering facts; reply-order permutations cannot reorder them.",
         "Liveness of the select protocol under a real scheduler and concrete reply-order permutations are not decided.",
         "DESIGN.md section 4 C10"),
}

NOT_YET = "check not built yet (work in progress; DESIGN.md section 4 describes the planned static rules)"
NA = {}

props = [json.loads(l)["id"] for l in open("/verif/properties.jsonl")]
checks, na, served = [], [], []
for p in props:
    if p in CLAIMED:
        tech, text, note, ref = CLAIMED[p]
        served.append(p)
        checks.append({
            "property_id": p,
            "quick_cmd": f"bin/p9check -prop {p} -tier quick",
            "thorough_cmd": f"bin/p9check -prop {p} -tier thorough",
            "evidence_file": f"/verif/evidence/{p}.json",
            "replay_cmd_template": "bin/p9check -explain {path}",
            "engine": "p9check",
            "level_claimed": {"category": "other", "text": text, "design_ref": ref},
            "level_note": note,
            "technique": "static analysis: " + tech,
        })
    else:
        na.append({"property_id": p, "reason": NA.get(p, NOT_YET)})

m = {
 "version": 1,
 "setup_cmd": SETUP,
 "hooks": {
   "guard": "verif",
   "enable": "none needed: the checks parse and type-check /repo (go/packages with -tags=verif); nothing from /repo is executed",
   "baseline_off_cmd": "cd /repo && go test -mod=mod -vet=off -count=1 -timeout 25m ./...",
   "source_commits": [],
   "add_only": True,
 },
 "engines": [{"name": "p9check", "path": "checker/", "serves_properties": served,
              "kind_free_text": "repository-specific static analyser (go/packages + go/types + go/cfg + go/ssa, x/tools v0.29.0); loads /repo's current working tree on every run"}],
 "checks": checks,
 "notes": "Static analysis only; see DESIGN.md. Known findings: known_findings.json (matched exactly on rule + construct).",
 "not_applicable": na,
}
json.dump(m, open("/verif/MANIFEST.json", "w"), indent=1)
print("claimed", served, "n/a", [x["property_id"] for x in na])
