// Demonstration for finding F9 (C19.r2/r3): copy into fsimpl/localfs/ as f9_test.go and run
//   go test -mod=mod -vet=off -count=1 -run TestF9 ./fsimpl/localfs/
// Paging a directory of 10 entries with Readdir(offset = Offset of the last entry received) in
// pages that the caller cuts short (as the server does when it truncates a reply to whole entries
// within the requested byte count). Before "fix: localfs Readdir rewinds the directory and resumes
// after the offset" the second page continued from wherever the os.File cursor was and re-returned
// the entry whose cookie equals the offset: entries were skipped and repeated.
package localfs

import (
	"fmt"
	"os"
	"path/filepath"
	"sort"
	"testing"

	"github.com/hugelgupf/p9/p9"
)

func TestF9ReaddirPagingExactlyOnce(t *testing.T) {
	dir := t.TempDir()
	var want []string
	for i := 0; i < 10; i++ {
		n := fmt.Sprintf("f%02d", i)
		want = append(want, n)
		if err := os.WriteFile(filepath.Join(dir, n), nil, 0o644); err != nil {
			t.Fatal(err)
		}
	}
	root, err := Attacher(dir).Attach()
	if err != nil {
		t.Fatal(err)
	}
	if _, _, err := root.Open(p9.ReadOnly); err != nil {
		t.Fatal(err)
	}
	var got []string
	offset := uint64(0)
	for page := 0; page < 50; page++ {
		ents, err := root.Readdir(offset, 8) // backend may return up to 8 ...
		if err != nil {
			t.Fatal(err)
		}
		if len(ents) == 0 {
			break
		}
		if len(ents) > 3 {
			ents = ents[:3] // ... but only 3 whole entries fit in the reply
		}
		for _, e := range ents {
			got = append(got, e.Name)
		}
		offset = ents[len(ents)-1].Offset
	}
	sort.Strings(got)
	if fmt.Sprint(got) != fmt.Sprint(want) {
		t.Fatalf("listing by pages returned %v, want every entry exactly once: %v", got, want)
	}
}
