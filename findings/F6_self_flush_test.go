// Demonstration for finding F6 (C14.r3 / C06.r7): copy into p9/ as f6_test.go (package p9) and run
//   go test -mod=mod -vet=off -count=1 -run TestF6 ./p9/
// On the tree before "fix: answer a Tflush that names its own tag" the flush waits for its own
// completion: no reply arrives and Handle never returns. Passes with the fix.
package p9

import (
	"net"
	"testing"
	"time"

	"github.com/u-root/uio/ulog"
)

type f6Attacher struct{}

func (f6Attacher) Attach() (File, error) { return nil, nil }

func TestF6FlushOfOwnTagIsAnswered(t *testing.T) {
	srv, cli := net.Pipe()
	s := NewServer(f6Attacher{})
	done := make(chan struct{})
	go func() { _ = s.Handle(srv, srv); close(done) }()
	cli.SetDeadline(time.Now().Add(2 * time.Second))
	if err := send(ulog.Null, cli, tag(5), &tflush{OldTag: 5}); err != nil {
		t.Fatal(err)
	}
	gotTag, m, err := recv(ulog.Null, cli, maximumLength, msgDotLRegistry.get)
	if err != nil {
		t.Fatalf("no reply to Tflush{OldTag: own tag}: %v", err)
	}
	if _, ok := m.(*rflush); !ok || gotTag != 5 {
		t.Fatalf("got tag %d %v, want tag 5 Rflush", gotTag, m)
	}
	cli.Close()
	select {
	case <-done:
	case <-time.After(2 * time.Second):
		t.Fatal("Handle did not return after the connection was closed")
	}
}
