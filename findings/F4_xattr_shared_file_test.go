// Demonstration for finding F4 (C05.r2): copy into p9/ as f4_test.go and run
//   go test -mod=mod -vet=off -count=1 -run TestF4 ./p9/
// Fails on e88323e..26ba3aa (the xattr fid shares the File of the fid it was walked from:
// the File is closed when the xattr fid is clunked and again when the original fid is),
// passes with the "fix: xattrwalk fid owns a clone" commit.
package p9_test

import (
	"net"
	"sync/atomic"
	"testing"

	"github.com/hugelgupf/p9/fsimpl/templatefs"
	"github.com/hugelgupf/p9/p9"
)

type f4File struct {
	templatefs.NoopFile
	closes *int32
	used   *int32 // calls after close
	closed int32
}

func (f *f4File) Walk(names []string) ([]p9.QID, p9.File, error) {
	if atomic.LoadInt32(&f.closed) != 0 {
		atomic.AddInt32(f.used, 1)
	}
	var c int32
	return nil, &f4File{closes: &c, used: f.used}, nil
}
func (f *f4File) GetAttr(p9.AttrMask) (p9.QID, p9.AttrMask, p9.Attr, error) {
	if atomic.LoadInt32(&f.closed) != 0 {
		atomic.AddInt32(f.used, 1)
	}
	return p9.QID{}, p9.AttrMask{Mode: true}, p9.Attr{Mode: p9.ModeRegular | 0o644}, nil
}
func (f *f4File) GetXattr(string) ([]byte, error) { return []byte("v"), nil }
func (f *f4File) Close() error {
	atomic.AddInt32(f.closes, 1)
	atomic.StoreInt32(&f.closed, 1)
	return nil
}

type f4Attacher struct{ root *f4File }

func (a f4Attacher) Attach() (p9.File, error) { return a.root, nil }

func TestF4XattrFidDoesNotShareFile(t *testing.T) {
	var closes, used int32
	root := &f4File{closes: &closes, used: &used}
	srv, cli := net.Pipe()
	s := p9.NewServer(f4Attacher{root})
	done := make(chan struct{})
	go func() { _ = s.Handle(srv, srv); close(done) }()
	c, err := p9.NewClient(cli)
	if err != nil {
		t.Fatal(err)
	}
	f, err := c.Attach("")
	if err != nil {
		t.Fatal(err)
	}
	if _, err := f.GetXattr("user.x"); err != nil { // Txattrwalk + Tread + Tclunk of the xattr fid
		t.Fatal(err)
	}
	if n := atomic.LoadInt32(&closes); n != 0 {
		t.Errorf("root File closed %d time(s) by clunking the xattr fid while the attach fid is still bound", n)
	}
	if _, _, _, err := f.GetAttr(p9.AttrMaskAll); err != nil {
		t.Fatal(err)
	}
	if n := atomic.LoadInt32(&used); n != 0 {
		t.Errorf("%d backend call(s) on the root File after its Close", n)
	}
	f.Close()
	c.Close()
	<-done
	if n := atomic.LoadInt32(&closes); n != 1 {
		t.Errorf("root File closed %d times, want exactly 1", n)
	}
}
