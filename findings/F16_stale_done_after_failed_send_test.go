// Demonstration for finding F16 (C10.r7): copy into p9/ as f16_test.go (package p9) and run
//   go test -mod=mod -vet=off -count=1 -run TestF16 ./p9/
// Schedule: call A has registered its response object and is inside send (Write blocked); the
// receiving goroutine sees the connection break and, as handleOne does on every receive error,
// signals every pending response - A's included - and replaces the pending map; then A's Write
// fails too.  A returns the send error without ever reading its done channel, and its deferred
// responsePool.Put hands the response object back to the process-wide pool with the broadcast
// error still sitting in the (buffered) channel.  The next call that draws this object - on any
// client of the process - would return that stale error at once.
// Fails before "fix: drain the done channel of a response whose request could not be sent";
// passes after.
package p9

import (
	"errors"
	"io"
	"testing"
	"time"
)

type f16Conn struct {
	inWrite chan struct{} // closed when Write has been entered
	release chan struct{} // Write returns (with an error) when this is closed
}

func (c *f16Conn) Read(p []byte) (int, error) { return 0, io.EOF } // the connection is broken
func (c *f16Conn) Write(p []byte) (int, error) {
	close(c.inWrite)
	<-c.release
	return 0, errors.New("write failed: connection broken")
}
func (c *f16Conn) Close() error { return nil }

type f16Logger struct{}

func (f16Logger) Printf(string, ...interface{}) {}
func (f16Logger) Print(...interface{})          {}

func TestF16FailedSendAfterBroadcastRecyclesCleanResponse(t *testing.T) {
	conn := &f16Conn{inWrite: make(chan struct{}), release: make(chan struct{})}
	c := &Client{
		conn:    conn,
		tagPool: pool{start: 1, limit: uint64(noTag)},
		fidPool: pool{start: 1, limit: uint64(noFID)},
		pending: make(map[tag]*response),
		recvr:   make(chan bool, 1),
	}
	c.log = f16Logger{}
	c.messageSize = DefaultMessageSize

	// Call A: registers, then blocks inside send.
	errA := make(chan error, 1)
	go func() { errA <- c.sendRecv(&tclunk{fid: 1}, &rclunk{}) }()
	select {
	case <-conn.inWrite:
	case <-time.After(5 * time.Second):
		t.Fatal("call A never reached Write")
	}

	// The response object A registered.
	c.pendingMu.Lock()
	var respA *response
	for _, r := range c.pending {
		respA = r
	}
	c.pendingMu.Unlock()
	if respA == nil {
		t.Fatal("call A has not registered a response")
	}

	// The receiver sees the broken connection: failure broadcast to every pending call.
	c.handleOne()

	// Now A's Write fails as well.
	close(conn.release)
	select {
	case err := <-errA:
		if err == nil {
			t.Fatal("call A should have failed")
		}
	case <-time.After(5 * time.Second):
		t.Fatal("call A did not return")
	}

	// A is done with its response object (it has gone back to responsePool).  Its done channel
	// must be empty, or the next call that draws the object returns a stale result.
	if n := len(respA.done); n != 0 {
		t.Fatalf("the response object of the failed call went back to the pool with %d value(s) still in its done channel: the next call to draw it returns %v without waiting for its own reply", n, <-respA.done)
	}
}
