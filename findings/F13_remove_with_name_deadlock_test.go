// Demonstration for finding F13 (C16.r2): copy into p9/ as f13_test.go (package p9) and run
//   go test -mod=mod -vet=off -count=1 -run TestF13 ./p9/
// Schedule: a rename within one directory (renameChildTo → removeWithName callback) while a Tclunk
// on another goroutine drops the fid table's reference to the renamed file. removeWithName then
// holds the last reference; before the fix it released it with childMu still held for write, and
// DecRef → parent.pathNode.removeChild locked the same childMu again: self-deadlock under
// renameMu:W (the whole server stops). Times out before "fix: drop callback references after
// releasing childMu", passes after.
package p9

import (
	"testing"
	"time"
)

// Only Close is ever called on these files.
type f13File struct{ File }

func (f13File) Close() error { return nil }

func TestF13SameDirRenameRacingClunk(t *testing.T) {
	s := NewServer(nil)
	dir := &fidRef{server: s, file: &f13File{}, refs: 1, mode: ModeDirectory, pathNode: s.pathTree}
	child := &fidRef{server: s, file: &f13File{}, refs: 1, parent: dir, mode: ModeRegular, pathNode: dir.pathNode.pathNodeFor("a")}
	dir.pathNode.addChild(child, "a")
	dir.IncRef() // reference held by child.parent

	done := make(chan struct{})
	go func() {
		defer close(done)
		dir.safelyGlobal(func() error {
			// What renameChildTo does for a same-directory rename a -> b, with the Tclunk of
			// the child's fid landing while the callback runs.
			dir.pathNode.removeWithName("a", func(ref *fidRef) {
				clunked := make(chan struct{})
				go func() { ref.DecRef(); close(clunked) }() // the fid table's reference
				<-clunked
				ref.parent.DecRef()
				ref.parent = dir
				ref.parent.IncRef()
				dir.pathNode.addChildLocked(ref, "b")
			})
			return nil
		})
	}()
	select {
	case <-done:
	case <-time.After(3 * time.Second):
		t.Fatal("deadlock: removeWithName released the last reference while holding childMu; DecRef re-locked the same childMu")
	}
}
