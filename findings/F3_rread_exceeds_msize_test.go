// Demonstration for finding F3 (C13.r1/r2): copy into p9/ as f3_test.go (package p9) and run
//   go test -mod=mod -vet=off -count=1 -run TestF3 ./p9/
// After negotiating msize 8192, a Tread with count = 8192 was answered with an Rread frame of
// 8192 + 11 bytes (the count was only checked against 4 MiB), and count > msize sliced past the
// pooled buffer (panic → EFAULT) instead of being shortened. Passes with
// "fix: server shortens Rread/Rreaddir to the negotiated msize".
package p9

import (
	"encoding/binary"
	"io"
	"net"
	"testing"

	"github.com/u-root/uio/ulog"
)

type f3File struct{ File }

func (f3File) GetAttr(AttrMask) (QID, AttrMask, Attr, error) {
	return QID{}, AttrMask{Mode: true}, Attr{Mode: ModeRegular | 0o644}, nil
}
func (f3File) Open(OpenFlags) (QID, uint32, error) { return QID{}, 0, nil }
func (f3File) ReadAt(p []byte, off int64) (int, error) {
	for i := range p {
		p[i] = 'x'
	}
	return len(p), nil
}
func (f3File) Close() error { return nil }

type f3Attacher struct{}

func (f3Attacher) Attach() (File, error) { return f3File{}, nil }

func TestF3RreadFitsAnnouncedMsize(t *testing.T) {
	const msize = 8192
	srv, cli := net.Pipe()
	s := NewServer(f3Attacher{})
	go s.Handle(srv, srv)
	defer cli.Close()
	rt := func(tm message) {
		if err := send(ulog.Null, cli, 1, tm); err != nil {
			t.Fatal(err)
		}
	}
	rd := func() (uint32, msgType, []byte) {
		var hdr [7]byte
		if _, err := io.ReadFull(cli, hdr[:]); err != nil {
			t.Fatal(err)
		}
		size := binary.LittleEndian.Uint32(hdr[:4])
		body := make([]byte, size-7)
		if _, err := io.ReadFull(cli, body); err != nil {
			t.Fatal(err)
		}
		return size, msgType(hdr[4]), body
	}
	rt(&tversion{MSize: msize, Version: "9P2000.L"})
	rd()
	rt(&tattach{fid: 1, Auth: tauth{Authenticationfid: noFID}})
	rd()
	rt(&tlopen{fid: 1, Flags: ReadOnly})
	rd()
	for _, count := range []uint32{msize - 11, msize - 10, msize, msize + 1, 1 << 20, 1<<32 - 1} {
		rt(&tread{fid: 1, Offset: 0, Count: count})
		size, typ, body := rd()
		if typ != msgRread {
			t.Errorf("Tread count=%d: got message type %d (errno %d), want a shortened Rread", count, typ, binary.LittleEndian.Uint32(body))
			continue
		}
		if size > msize {
			t.Errorf("Tread count=%d: Rread frame is %d bytes, announced msize is %d", count, size, msize)
		}
	}
}
