// Demonstration for finding F7 (C20.r1): copy into fsimpl/qids/ as f7_test.go and run
//   go test -mod=mod -vet=off -count=1 -race -run TestF7 ./fsimpl/qids/
// Before "fix: qids.Mapper guards its table with a mutex" concurrent QIDFor calls race on the
// plain map (race detector report; without -race: 'fatal error: concurrent map writes') and can
// hand out two paths for one source.
package qids

import (
	"sync"
	"testing"

	"github.com/hugelgupf/p9/p9"
)

func TestF7ConcurrentQIDFor(t *testing.T) {
	m := NewMapper(&PathGenerator{})
	var wg sync.WaitGroup
	res := make([][]uint64, 8)
	for g := 0; g < 8; g++ {
		wg.Add(1)
		go func(g int) {
			defer wg.Done()
			for i := 0; i < 2000; i++ {
				res[g] = append(res[g], m.QIDFor(p9.QID{Path: uint64(i)}).Path)
			}
		}(g)
	}
	wg.Wait()
	for i := 0; i < 2000; i++ {
		for g := 1; g < 8; g++ {
			if res[g][i] != res[0][i] {
				t.Fatalf("source path %d mapped to %d and %d", i, res[0][i], res[g][i])
			}
		}
	}
}
