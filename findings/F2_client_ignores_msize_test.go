// Demonstration for finding F2 (C12.r5 / C13.r4): copy into p9/ as f2_test.go (package p9) and run
//   go test -mod=mod -vet=off -count=1 -run TestF2 ./p9/
// A server that lowers msize in Rversion (here to 4096 when 65536 is requested). Before
// "fix: client adopts the msize announced in Rversion" the client kept messageSize 65536 and
// payloadSize 65024 and would send Twrite frames far above the announced limit.
package p9

import (
	"net"
	"testing"

	"github.com/u-root/uio/ulog"
)

func TestF2ClientAdoptsLoweredMsize(t *testing.T) {
	srv, cli := net.Pipe()
	defer srv.Close()
	go func() {
		tg, m, err := recv(ulog.Null, srv, maximumLength, msgDotLRegistry.get)
		if err != nil {
			return
		}
		tv := m.(*tversion)
		_ = send(ulog.Null, srv, tg, &rversion{MSize: 4096, Version: tv.Version})
	}()
	c, err := NewClient(cli)
	if err != nil {
		t.Fatal(err)
	}
	if c.messageSize != 4096 {
		t.Errorf("client messageSize = %d after the server announced msize 4096", c.messageSize)
	}
	if c.payloadSize+headerLength+16 > 4096 {
		t.Errorf("client payloadSize = %d: a full Twrite frame (%d bytes) exceeds the announced msize 4096", c.payloadSize, c.payloadSize+headerLength+16)
	}
}
