// Demonstration for finding F15 (C03.r5): copy into linux/ as f15_test.go (package linux) and run
//   go test -mod=mod -vet=off -count=1 -run TestF15 ./linux/
// Before "fix: ExtractErrno prefers an exact errno over the os.Err* sentinels" a backend's
// EPERM reached the client as EACCES and ENOTEMPTY (rmdir of a non-empty directory) as EEXIST.
package linux

import (
	"os"
	"syscall"
	"testing"
)

func TestF15ExactErrnoWins(t *testing.T) {
	for _, tc := range []struct {
		err  error
		want Errno
	}{
		{syscall.EPERM, EPERM},
		{syscall.ENOTEMPTY, ENOTEMPTY},
		{&os.PathError{Op: "rmdir", Path: "d", Err: syscall.ENOTEMPTY}, ENOTEMPTY},
		{&os.PathError{Op: "open", Path: "f", Err: syscall.EPERM}, EPERM},
		{os.ErrNotExist, ENOENT},
		{os.ErrPermission, EACCES},
	} {
		if got := ExtractErrno(tc.err); got != tc.want {
			t.Errorf("ExtractErrno(%v) = %d (%v), want %d (%v)", tc.err, got, got, tc.want, tc.want)
		}
	}
}
