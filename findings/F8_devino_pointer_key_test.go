// Demonstration for finding F8 (C20.r2): copy into fsimpl/localfs/ as f8_test.go and run
//   go test -mod=mod -vet=off -count=1 -run TestF8 ./fsimpl/localfs/
// A (dev, ino) pair outside the compact encoding (inode >= 2^39) must map to one stable path.
// Before "fix: localfs keys its fallback QID table by value" the sync.Map was keyed by
// &devino{...}: every lookup missed and allocated a new path.
package localfs

import (
	"os"
	"syscall"
	"testing"
	"time"
)

type f8Info struct{ st syscall.Stat_t }

func (f8Info) Name() string        { return "x" }
func (f8Info) Size() int64         { return 0 }
func (f8Info) Mode() os.FileMode   { return 0 }
func (f8Info) ModTime() time.Time  { return time.Time{} }
func (f8Info) IsDir() bool         { return false }
func (f f8Info) Sys() interface{}  { return &f.st }

func TestF8UnlikelyDevInoIsStable(t *testing.T) {
	fi := f8Info{syscall.Stat_t{Dev: 0x801, Ino: 1 << 40}}
	a, _ := localToQid("", fi)
	b, _ := localToQid("", fi)
	if a != b {
		t.Fatalf("same (dev, ino) mapped to two QID paths: %#x then %#x", a, b)
	}
}
