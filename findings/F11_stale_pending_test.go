// Demonstration for finding F11 (C10.r7): copy into p9/ as f11_test.go (package p9) and run
//   go test -mod=mod -vet=off -count=1 -run TestF11 ./p9/
// A send that fails left c.pending[tag] pointing at the response object that sendRecv's deferred
// responsePool.Put recycles. Before "fix: remove the pending entry when the request could not be
// sent" the entry stays behind; passes after.
package p9

import (
	"errors"
	"io"
	"testing"
)

type f11Conn struct{ fail bool }

func (c *f11Conn) Read(p []byte) (int, error)  { select {} }
func (c *f11Conn) Write(p []byte) (int, error) { return 0, errors.New("write failed") }
func (c *f11Conn) Close() error                { return nil }

var _ io.ReadWriteCloser = (*f11Conn)(nil)

func TestF11SendFailureLeavesNoPendingEntry(t *testing.T) {
	c := &Client{
		conn:    &f11Conn{},
		tagPool: pool{start: 1, limit: uint64(noTag)},
		fidPool: pool{start: 1, limit: uint64(noFID)},
		pending: make(map[tag]*response),
		recvr:   make(chan bool, 1),
	}
	c.log = nopLogger{}
	if err := c.sendRecv(&tclunk{fid: 1}, &rclunk{}); err == nil {
		t.Fatal("send should have failed")
	}
	c.pendingMu.Lock()
	n := len(c.pending)
	c.pendingMu.Unlock()
	if n != 0 {
		t.Fatalf("%d stale entr(y/ies) left in c.pending after a failed send; the response object they point to has gone back to responsePool", n)
	}
}

type nopLogger struct{}

func (nopLogger) Printf(string, ...interface{}) {}
func (nopLogger) Print(...interface{})          {}
