#!/bin/bash
# tools/fast_matrix.sh <out-file> <patch.diff ...>: development helper for the corpora.  Every patch is
# applied to a throw-away worktree of /repo under /tmp/rx, the tree is loaded ONCE and the rules of every
# property are run on it in one process (p9check -alarms); one line per patch: the properties whose
# rules report something.  Several patches run in parallel ($JOBS, default 10).  The registered checks
# and the authoritative matrices (seed_matrix.sh, refactor_matrix.sh) run the real per-property
# commands; this is for iterating on the rules.
export GOFLAGS=-mod=mod GOPROXY=off GOSUMDB=off GOTOOLCHAIN=local
BIN=${P9BIN:-/verif/bin/p9check}
out=$1; shift
mkdir -p /tmp/rx ${ALARMS:-/tmp/rx/fast}
one() {
  f=$1
  n=$(basename $(dirname $f))-$(basename $f .diff)
  wt=$(mktemp -d /tmp/rx/fm.XXXXXX); rmdir $wt
  git -C /repo worktree add -q --detach $wt HEAD 2>/dev/null || { echo "$n: WORKTREE FAILED"; return; }
  if ! git -C $wt apply $(readlink -f $f) 2>/dev/null; then echo "$n: PATCH DOES NOT APPLY"; git -C /repo worktree remove --force $wt; return; fi
  $BIN -alarms -repo $wt > ${ALARMS:-/tmp/rx/fast}/$n.out 2>&1
  git -C /repo worktree remove --force $wt
  props=$(grep "^ALARM" ${ALARMS:-/tmp/rx/fast}/$n.out | awk '{print $2}' | sort -u | tr '\n' ' ')
  if [ -z "$props" ]; then echo "$n: silent"; else echo "$n: $props"; fi
}
export -f one; export BIN ALARMS
printf "%s\n" "$@" | xargs -P ${JOBS:-10} -I{} bash -c 'one {}' | sort -V > $out
echo done >> $out
