#!/bin/bash
# Runs the repository's baseline suite (as /root/.vp/BASELINE.json does) and compares
# the set of passing tests with BASELINE.stable_pass.  Usage: tools/baseline.sh [repo-dir]
REPO=${1:-/repo}
export GOFLAGS=-mod=mod GOPROXY=off GOSUMDB=off GOTOOLCHAIN=local
cd "$REPO" && go test -mod=mod -json -vet=off -count=1 -timeout 25m ./... 2>/dev/null > /tmp/baseline.$$.json
python3 - /tmp/baseline.$$.json <<'PY'
import json,sys
passed=set()
for l in open(sys.argv[1]):
    try: e=json.loads(l)
    except: continue
    if e.get('Action')=='pass' and e.get('Test'):
        passed.add(e['Package']+'::'+e['Test'])
want=set(json.load(open('/root/.vp/BASELINE.json'))['stable_pass'])
missing=sorted(want-passed)
print("baseline: %d/%d stable tests pass"%(len(want)-len(missing),len(want)))
for m in missing[:20]: print("  MISSING",m)
sys.exit(1 if missing else 0)
PY
rc=$?
rm -f /tmp/baseline.$$.json
exit $rc
