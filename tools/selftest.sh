#!/bin/bash
# tools/selftest.sh [quick|full]: the checker's own regression suite (not a registered check).
#  1. unchanged tree: every quick check passes;
#  2. seeded/  (breaking changes written by sub-agents): every seed is reported by its own check;
#  3. regress/ (reverse patches of the fix: commits): every revert is reported;
#  4. refactors/ (behaviour-preserving refactorings written by sub-agents): every check is silent;
#  5. mechanical rewrites (bin/mech: rename, recv, locals, shift, ifflip, vardecl, m2f, f2m, fnrename): every check is silent.
# Steps 2-4 apply each patch to /repo and undo it (git apply / git checkout), as the task prescribes;
# step 5 works on throw-away worktrees under /tmp/rx.  "quick" skips steps 2 and 4 (the long ones).
cd /verif || exit 2
mode=${1:-full}
export GOFLAGS=-mod=mod GOPROXY=off GOSUMDB=off GOTOOLCHAIN=local GOWORK=off
BIN=${P9BIN:-bin/p9check}
fail=0
echo "== 1. unchanged tree"
tools/allquick.sh /repo | grep -v " 0 violations" && fail=1
echo "== 3. fix reverts"
tools/regress_matrix.sh | tee /tmp/selftest.regress.txt | grep -v DETECTED
grep -q "reverts not reported: 0" /tmp/selftest.regress.txt || fail=1
if [ "$mode" = full ]; then
  echo "== 2. seeds"
  MATRIX_OUT=/tmp/selftest.matrix.md tools/seed_matrix.sh | grep -v "own=DETECTS" && fail=1
  echo "== 4. refactorings"
  tools/refactor_matrix.sh refactors/*/ | tee /tmp/selftest.refactors.txt | grep -v "silent$" | grep -v "^details:" && fail=1
fi
echo "== 5. mechanical rewrites"
(cd tools/mech && go build -o /verif/bin/mech .) || exit 2
mkdir -p /tmp/rx
for m in shift rename recv locals ifflip vardecl m2f f2m fnrename; do
  wt=/tmp/rx/selftest-$m
  git -C /repo worktree remove --force $wt 2>/dev/null; git -C /repo worktree prune
  git -C /repo worktree add -q --detach $wt HEAD || exit 2
  bin/mech -dir $wt -mode $m >/dev/null || { echo "mech $m failed"; fail=1; }
  (cd $wt && go build ./... ) || { echo "mech $m: does not build"; fail=1; }
  out=$(P9BIN=$BIN tools/allquick.sh $wt | grep -v " 0 violations")
  if [ -n "$out" ]; then echo "mech $m:"; echo "$out"; fail=1; else echo "mech $m: silent"; fi
  git -C /repo worktree remove --force $wt
done
[ $fail = 0 ] && echo "SELFTEST OK" || echo "SELFTEST FAILED"
exit $fail
