// mech applies mechanical, behaviour-preserving rewrites to a scratch copy of the repository, to
// test the checkers for false alarms:
//
//	mech -dir <worktree> -mode rename   every local variable, parameter, named result and receiver
//	                                    of the non-test code gets the prefix "zz"
//	mech -dir <worktree> -mode shift    three comment lines are inserted at the top of every file
//	                                    (all line numbers move)
//	mech -dir <worktree> -mode recv     only receivers are renamed
//	mech -dir <worktree> -mode locals   only locals declared inside bodies are renamed (not parameters)
//	mech -dir <worktree> -mode ifflip   every if/else with a plain else block is inverted:
//	                                    if c {A} else {B}  =>  if !(c) {B} else {A}
//	mech -dir <worktree> -mode vardecl  every statement "x := e" becomes "var x = e"
//	mech -dir <worktree> -mode m2f      every unexported method that no interface asks for, that is
//	                                    never used as a value and never reached through an embedded
//	                                    field becomes a plain function taking the receiver first:
//	                                    x.m(a) => m(x, a)  (named T_m when m is not unique)
//	mech -dir <worktree> -mode fnrename every unexported function or method that no interface asks for
//	                                    and no test mentions gets the prefix "zz" (all at once)
//	mech -dir <worktree> -mode f2m      every unexported function whose first parameter is T or *T
//	                                    for a struct type T of the package becomes a method of T:
//	                                    f(x, a) => x.f(a)
//
// The rewrite is done on the type-checked program (objects, not text), written back with
// go/format, and must still build.
package main

import (
	"bytes"
	"flag"
	"fmt"
	"go/ast"
	"go/format"
	"go/token"
	"go/types"
	"os"
	"strings"

	"golang.org/x/tools/go/packages"
)

func main() {
	dir := flag.String("dir", "", "worktree to rewrite in place")
	mode := flag.String("mode", "rename", "rename|shift|recv|locals")
	flag.Parse()
	if *dir == "" {
		fmt.Fprintln(os.Stderr, "need -dir")
		os.Exit(2)
	}
	cfg := &packages.Config{Mode: packages.LoadAllSyntax, Dir: *dir, Tests: false, Env: append(os.Environ(), "GOFLAGS=-mod=mod", "GOWORK=off")}
	pkgs, err := packages.Load(cfg, "./...")
	if err != nil {
		fmt.Fprintln(os.Stderr, err)
		os.Exit(2)
	}
	n := 0
	if *mode == "m2f" || *mode == "f2m" || *mode == "fnrename" {
		for _, p := range pkgs {
			if len(p.Errors) > 0 {
				fmt.Fprintln(os.Stderr, p.Errors)
				os.Exit(2)
			}
			n += reform(p, pkgs, *dir, *mode)
		}
		fmt.Printf("mech %s: %d functions changed form\n", *mode, n)
		return
	}
	for _, p := range pkgs {
		if len(p.Errors) > 0 {
			fmt.Fprintln(os.Stderr, p.Errors)
			os.Exit(2)
		}
		for i, f := range p.Syntax {
			path := p.CompiledGoFiles[i]
			if !strings.HasPrefix(path, *dir) || strings.HasSuffix(path, "_test.go") {
				continue
			}
			switch *mode {
			case "ifflip", "vardecl":
				changed := false
				ast.Inspect(f, func(nd ast.Node) bool {
					switch v := nd.(type) {
					case *ast.IfStmt:
						// if c { A } else { B }  =>  if !(c) { B } else { A }   (else must be a plain block)
						if *mode != "ifflip" {
							return true
						}
						eb, ok := v.Else.(*ast.BlockStmt)
						if !ok {
							return true
						}
						v.Cond = &ast.UnaryExpr{Op: token.NOT, X: &ast.ParenExpr{X: v.Cond}}
						v.Body, v.Else = eb, v.Body
						changed = true
					case *ast.BlockStmt:
						if *mode != "vardecl" {
							return true
						}
						for i, st := range v.List {
							as, ok := st.(*ast.AssignStmt)
							if !ok || as.Tok != token.DEFINE || len(as.Lhs) != 1 || len(as.Rhs) != 1 {
								continue
							}
							id, ok := as.Lhs[0].(*ast.Ident)
							if !ok || id.Name == "_" {
								continue
							}
							// x := e  =>  var x = e   (same type: the type of e)
							if tv, ok := p.TypesInfo.Types[as.Rhs[0]]; !ok || tv.Type == nil {
								continue
							} else if b, isB := tv.Type.(*types.Basic); isB && b.Info()&types.IsUntyped != 0 {
								continue
							}
							v.List[i] = &ast.DeclStmt{Decl: &ast.GenDecl{TokPos: as.Pos(), Tok: token.VAR, Specs: []ast.Spec{&ast.ValueSpec{Names: []*ast.Ident{id}, Values: as.Rhs}}}}
							changed = true
						}
					}
					return true
				})
				if changed {
					var buf bytes.Buffer
					if err := format.Node(&buf, p.Fset, f); err != nil {
						fmt.Fprintln(os.Stderr, path, err)
						os.Exit(2)
					}
					os.WriteFile(path, buf.Bytes(), 0644)
					n++
				}
				continue
			case "shift":
				src, _ := os.ReadFile(path)
				os.WriteFile(path, append([]byte("// (mechanical test rewrite: line shift)\n//\n//\n"), src...), 0644)
				n++
				continue
			}
			// which objects to rename
			params := map[types.Object]bool{}
			recvs := map[types.Object]bool{}
			ast.Inspect(f, func(nd ast.Node) bool {
				var ft *ast.FuncType
				switch v := nd.(type) {
				case *ast.FuncDecl:
					ft = v.Type
					if v.Recv != nil {
						for _, fl := range v.Recv.List {
							for _, nm := range fl.Names {
								recvs[p.TypesInfo.Defs[nm]] = true
							}
						}
					}
				case *ast.FuncLit:
					ft = v.Type
				}
				if ft != nil {
					for _, lst := range []*ast.FieldList{ft.Params, ft.Results} {
						if lst == nil {
							continue
						}
						for _, fl := range lst.List {
							for _, nm := range fl.Names {
								params[p.TypesInfo.Defs[nm]] = true
							}
						}
					}
				}
				return true
			})
			want := func(obj types.Object) bool {
				v, ok := obj.(*types.Var)
				if !ok || v.IsField() || v.Name() == "_" || v.Pkg() == nil || v.Parent() == v.Pkg().Scope() || v.Parent() == nil {
					return false
				}
				switch *mode {
				case "recv":
					return recvs[obj]
				case "locals":
					return !recvs[obj] && !params[obj]
				}
				return true
			}
			changed := false
			// x := y.(type): the symbolic variable has no object of its own
			tsw := map[*ast.Ident]bool{}
			ast.Inspect(f, func(nd ast.Node) bool {
				if ts, ok := nd.(*ast.TypeSwitchStmt); ok {
					if as, ok := ts.Assign.(*ast.AssignStmt); ok && len(as.Lhs) == 1 {
						if id, ok := as.Lhs[0].(*ast.Ident); ok && *mode != "recv" {
							tsw[id] = true
						}
					}
				}
				return true
			})
			ast.Inspect(f, func(nd ast.Node) bool {
				id, ok := nd.(*ast.Ident)
				if !ok {
					return true
				}
				if tsw[id] {
					id.Name = "zz" + id.Name
					changed = true
					return true
				}
				obj := p.TypesInfo.Defs[id]
				if obj == nil {
					obj = p.TypesInfo.Uses[id]
				}
				if obj != nil && want(obj) {
					id.Name = "zz" + id.Name
					changed = true
				}
				return true
			})
			if !changed {
				continue
			}
			var buf bytes.Buffer
			if err := format.Node(&buf, p.Fset, f); err != nil {
				fmt.Fprintln(os.Stderr, path, err)
				os.Exit(2)
			}
			os.WriteFile(path, buf.Bytes(), 0644)
			n++
		}
	}
	fmt.Printf("mech %s: %d files rewritten\n", *mode, n)
	_ = token.NoPos
}

// reform converts methods to functions (m2f) or functions to methods (f2m) in one package.
func reform(p *packages.Package, all []*packages.Package, dir, mode string) int {
	info := p.TypesInfo
	inDir := func(i int) bool {
		return strings.HasPrefix(p.CompiledGoFiles[i], dir) && !strings.HasSuffix(p.CompiledGoFiles[i], "_test.go")
	}
	ok := false
	for i := range p.Syntax {
		if inDir(i) {
			ok = true
		}
	}
	if !ok {
		return 0
	}
	// every method name some interface asks for (in any loaded package)
	ifaceNames := map[string]bool{"Error": true, "String": true}
	seenPkg := map[*packages.Package]bool{}
	var visit func(q *packages.Package)
	visit = func(q *packages.Package) {
		if seenPkg[q] {
			return
		}
		seenPkg[q] = true
		if q.Types != nil {
			sc := q.Types.Scope()
			for _, nm := range sc.Names() {
				if tn, ok := sc.Lookup(nm).(*types.TypeName); ok {
					if it, ok := tn.Type().Underlying().(*types.Interface); ok {
						for i := 0; i < it.NumMethods(); i++ {
							ifaceNames[it.Method(i).Name()] = true
						}
					}
				}
			}
		}
		for _, ip := range q.Imports {
			visit(ip)
		}
	}
	for _, q := range all {
		visit(q)
	}
	// anonymous interfaces in this package's syntax
	for _, f := range p.Syntax {
		ast.Inspect(f, func(n ast.Node) bool {
			if it, ok := n.(*ast.InterfaceType); ok && it.Methods != nil {
				for _, m := range it.Methods.List {
					for _, nm := range m.Names {
						ifaceNames[nm.Name] = true
					}
				}
			}
			return true
		})
	}
	type use struct {
		id    *ast.Ident
		call  *ast.CallExpr // nil: used as a value
		sel   *ast.SelectorExpr
		promo bool
	}
	uses := map[*types.Func][]use{}
	for _, f := range p.Syntax {
		var stack []ast.Node
		ast.Inspect(f, func(n ast.Node) bool {
			if n == nil {
				stack = stack[:len(stack)-1]
				return true
			}
			stack = append(stack, n)
			id, isId := n.(*ast.Ident)
			if !isId {
				return true
			}
			fo, _ := info.Uses[id].(*types.Func)
			if fo == nil {
				return true
			}
			u := use{id: id}
			if len(stack) >= 2 {
				switch par := stack[len(stack)-2].(type) {
				case *ast.CallExpr:
					if par.Fun == ast.Expr(id) {
						u.call = par
					}
				case *ast.SelectorExpr:
					if par.Sel == id {
						u.sel = par
						if s := info.Selections[par]; s != nil && (len(s.Index()) != 1 || s.Kind() != types.MethodVal) {
							u.promo = true
						}
						if len(stack) >= 3 {
							if c, isCall := stack[len(stack)-3].(*ast.CallExpr); isCall && c.Fun == ast.Expr(par) {
								u.call = c
							}
						}
					}
				}
			}
			uses[fo.Origin()] = append(uses[fo.Origin()], u)
			return true
		})
	}
	// the package's test files are not loaded: a function they mention keeps its form
	testSrc := ""
	if len(p.CompiledGoFiles) > 0 {
		pd := p.CompiledGoFiles[0][:strings.LastIndexByte(p.CompiledGoFiles[0], '/')]
		if ents, err := os.ReadDir(pd); err == nil {
			for _, e := range ents {
				if strings.HasSuffix(e.Name(), "_test.go") {
					b, _ := os.ReadFile(pd + "/" + e.Name())
					testSrc += string(b)
				}
			}
		}
	}
	taken := map[string]bool{}
	for _, nm := range p.Types.Scope().Names() {
		taken[nm] = true
	}
	changedFiles := map[*ast.File]bool{}
	fileOf := func(pos token.Pos) *ast.File {
		for _, f := range p.Syntax {
			if f.Pos() <= pos && pos < f.End() {
				return f
			}
		}
		return nil
	}
	n := 0
	for i, f := range p.Syntax {
		if !inDir(i) {
			continue
		}
		for _, d := range f.Decls {
			fd, isFn := d.(*ast.FuncDecl)
			if !isFn || fd.Body == nil || fd.Type.TypeParams != nil {
				continue
			}
			obj, _ := info.Defs[fd.Name].(*types.Func)
			if obj == nil || obj.Exported() || fd.Name.Name == "init" || fd.Name.Name == "main" {
				continue
			}
			sig := obj.Type().(*types.Signature)
			usable := true
			for _, u := range uses[obj] {
				if u.call == nil || u.promo {
					usable = false
				}
				if uf := fileOf(u.id.Pos()); uf == nil {
					usable = false
				} else {
					for j, g := range p.Syntax {
						if g == uf && !inDir(j) {
							usable = false // called from a test file of the package
						}
					}
				}
			}
			if !usable || strings.Contains(testSrc, fd.Name.Name+"(") {
				continue
			}
			switch {
			case mode == "fnrename":
				// every private function or method that no interface asks for gets a new name
				if ifaceNames[fd.Name.Name] {
					continue
				}
				name := "zz" + fd.Name.Name
				for _, u := range uses[obj] {
					u.id.Name = name
					changedFiles[fileOf(u.id.Pos())] = true
				}
				fd.Name.Name = name
				changedFiles[f] = true
				n++
			case mode == "m2f" && fd.Recv != nil:
				if ifaceNames[fd.Name.Name] || len(fd.Recv.List) != 1 {
					continue
				}
				rt := sig.Recv().Type()
				if pt, ok := rt.(*types.Pointer); ok {
					rt = pt.Elem()
				}
				nt, ok := rt.(*types.Named)
				if !ok || nt.TypeParams().Len() > 0 {
					continue
				}
				name := fd.Name.Name
				if taken[name] || types.Universe.Lookup(name) != nil {
					name = nt.Obj().Name() + "_" + fd.Name.Name
				}
				if taken[name] {
					continue
				}
				taken[name] = true
				_, recvPtr := sig.Recv().Type().(*types.Pointer)
				for _, u := range uses[obj] {
					x := u.sel.X
					_, xPtr := info.TypeOf(x).(*types.Pointer)
					switch {
					case recvPtr && !xPtr:
						x = &ast.UnaryExpr{Op: token.AND, X: x}
					case !recvPtr && xPtr:
						x = &ast.StarExpr{X: x}
					}
					u.call.Fun = ast.NewIdent(name)
					u.call.Args = append([]ast.Expr{x}, u.call.Args...)
					changedFiles[fileOf(u.id.Pos())] = true
				}
				recv := fd.Recv.List[0]
				if len(recv.Names) == 0 {
					for _, fl := range fd.Type.Params.List {
						if len(fl.Names) > 0 {
							recv.Names = []*ast.Ident{ast.NewIdent("_")}
							break
						}
					}
				}
				fd.Type.Params.List = append([]*ast.Field{recv}, fd.Type.Params.List...)
				fd.Recv = nil
				fd.Name = ast.NewIdent(name)
				changedFiles[f] = true
				n++
			case mode == "f2m" && fd.Recv == nil:
				if sig.Params().Len() == 0 || sig.Variadic() && sig.Params().Len() == 1 || len(fd.Type.Params.List) == 0 {
					continue
				}
				pt := sig.Params().At(0).Type()
				if q, ok := pt.(*types.Pointer); ok {
					pt = q.Elem()
				}
				nt, ok := pt.(*types.Named)
				if !ok || nt.Obj().Pkg() != p.Types || nt.TypeParams().Len() > 0 {
					continue
				}
				if _, isStruct := nt.Underlying().(*types.Struct); !isStruct {
					continue
				}
				if o, _, _ := types.LookupFieldOrMethod(sig.Params().At(0).Type(), true, p.Types, fd.Name.Name); o != nil || ifaceNames[fd.Name.Name] {
					continue
				}
				first := fd.Type.Params.List[0]
				if len(first.Names) == 0 {
					continue
				}
				for _, u := range uses[obj] {
					x := u.call.Args[0]
					switch x.(type) {
					case *ast.Ident, *ast.SelectorExpr, *ast.CallExpr, *ast.IndexExpr:
					default:
						x = &ast.ParenExpr{X: x}
					}
					u.call.Fun = &ast.SelectorExpr{X: x, Sel: ast.NewIdent(fd.Name.Name)}
					u.call.Args = u.call.Args[1:]
					changedFiles[fileOf(u.id.Pos())] = true
				}
				recv := &ast.Field{Names: []*ast.Ident{first.Names[0]}, Type: first.Type}
				var rest []*ast.Field
				if len(first.Names) > 1 {
					rest = append(rest, &ast.Field{Names: first.Names[1:], Type: first.Type})
				}
				rest = append(rest, fd.Type.Params.List[1:]...)
				fd.Recv = &ast.FieldList{List: []*ast.Field{recv}}
				fd.Type.Params.List = rest
				changedFiles[f] = true
				n++
			}
		}
	}
	for i, f := range p.Syntax {
		if !changedFiles[f] || !inDir(i) {
			continue
		}
		var buf bytes.Buffer
		if err := format.Node(&buf, p.Fset, f); err != nil {
			fmt.Fprintln(os.Stderr, p.CompiledGoFiles[i], err)
			os.Exit(2)
		}
		os.WriteFile(p.CompiledGoFiles[i], buf.Bytes(), 0644)
	}
	return n
}
