// mech applies mechanical, behaviour-preserving rewrites to a scratch copy of the repository, to
// test the checkers for false alarms:
//
//	mech -dir <worktree> -mode rename   every local variable, parameter, named result and receiver
//	                                    of the non-test code gets the prefix "zz"
//	mech -dir <worktree> -mode shift    three comment lines are inserted at the top of every file
//	                                    (all line numbers move)
//	mech -dir <worktree> -mode recv     only receivers are renamed
//	mech -dir <worktree> -mode locals   only locals declared inside bodies are renamed (not parameters)
//	mech -dir <worktree> -mode ifflip   every if/else with a plain else block is inverted:
//	                                    if c {A} else {B}  =>  if !(c) {B} else {A}
//	mech -dir <worktree> -mode vardecl  every statement "x := e" becomes "var x = e"
//
// The rewrite is done on the type-checked program (objects, not text), written back with
// go/format, and must still build.
package main

import (
	"bytes"
	"flag"
	"fmt"
	"go/ast"
	"go/format"
	"go/token"
	"go/types"
	"os"
	"strings"

	"golang.org/x/tools/go/packages"
)

func main() {
	dir := flag.String("dir", "", "worktree to rewrite in place")
	mode := flag.String("mode", "rename", "rename|shift|recv|locals")
	flag.Parse()
	if *dir == "" {
		fmt.Fprintln(os.Stderr, "need -dir")
		os.Exit(2)
	}
	cfg := &packages.Config{Mode: packages.LoadAllSyntax, Dir: *dir, Tests: false, Env: append(os.Environ(), "GOFLAGS=-mod=mod", "GOWORK=off")}
	pkgs, err := packages.Load(cfg, "./...")
	if err != nil {
		fmt.Fprintln(os.Stderr, err)
		os.Exit(2)
	}
	n := 0
	for _, p := range pkgs {
		if len(p.Errors) > 0 {
			fmt.Fprintln(os.Stderr, p.Errors)
			os.Exit(2)
		}
		for i, f := range p.Syntax {
			path := p.CompiledGoFiles[i]
			if !strings.HasPrefix(path, *dir) || strings.HasSuffix(path, "_test.go") {
				continue
			}
			switch *mode {
			case "ifflip", "vardecl":
				changed := false
				ast.Inspect(f, func(nd ast.Node) bool {
					switch v := nd.(type) {
					case *ast.IfStmt:
						// if c { A } else { B }  =>  if !(c) { B } else { A }   (else must be a plain block)
						if *mode != "ifflip" {
							return true
						}
						eb, ok := v.Else.(*ast.BlockStmt)
						if !ok {
							return true
						}
						v.Cond = &ast.UnaryExpr{Op: token.NOT, X: &ast.ParenExpr{X: v.Cond}}
						v.Body, v.Else = eb, v.Body
						changed = true
					case *ast.BlockStmt:
						if *mode != "vardecl" {
							return true
						}
						for i, st := range v.List {
							as, ok := st.(*ast.AssignStmt)
							if !ok || as.Tok != token.DEFINE || len(as.Lhs) != 1 || len(as.Rhs) != 1 {
								continue
							}
							id, ok := as.Lhs[0].(*ast.Ident)
							if !ok || id.Name == "_" {
								continue
							}
							// x := e  =>  var x = e   (same type: the type of e)
							if tv, ok := p.TypesInfo.Types[as.Rhs[0]]; !ok || tv.Type == nil {
								continue
							} else if b, isB := tv.Type.(*types.Basic); isB && b.Info()&types.IsUntyped != 0 {
								continue
							}
							v.List[i] = &ast.DeclStmt{Decl: &ast.GenDecl{TokPos: as.Pos(), Tok: token.VAR, Specs: []ast.Spec{&ast.ValueSpec{Names: []*ast.Ident{id}, Values: as.Rhs}}}}
							changed = true
						}
					}
					return true
				})
				if changed {
					var buf bytes.Buffer
					if err := format.Node(&buf, p.Fset, f); err != nil {
						fmt.Fprintln(os.Stderr, path, err)
						os.Exit(2)
					}
					os.WriteFile(path, buf.Bytes(), 0644)
					n++
				}
				continue
			case "shift":
				src, _ := os.ReadFile(path)
				os.WriteFile(path, append([]byte("// (mechanical test rewrite: line shift)\n//\n//\n"), src...), 0644)
				n++
				continue
			}
			// which objects to rename
			params := map[types.Object]bool{}
			recvs := map[types.Object]bool{}
			ast.Inspect(f, func(nd ast.Node) bool {
				var ft *ast.FuncType
				switch v := nd.(type) {
				case *ast.FuncDecl:
					ft = v.Type
					if v.Recv != nil {
						for _, fl := range v.Recv.List {
							for _, nm := range fl.Names {
								recvs[p.TypesInfo.Defs[nm]] = true
							}
						}
					}
				case *ast.FuncLit:
					ft = v.Type
				}
				if ft != nil {
					for _, lst := range []*ast.FieldList{ft.Params, ft.Results} {
						if lst == nil {
							continue
						}
						for _, fl := range lst.List {
							for _, nm := range fl.Names {
								params[p.TypesInfo.Defs[nm]] = true
							}
						}
					}
				}
				return true
			})
			want := func(obj types.Object) bool {
				v, ok := obj.(*types.Var)
				if !ok || v.IsField() || v.Name() == "_" || v.Pkg() == nil || v.Parent() == v.Pkg().Scope() || v.Parent() == nil {
					return false
				}
				switch *mode {
				case "recv":
					return recvs[obj]
				case "locals":
					return !recvs[obj] && !params[obj]
				}
				return true
			}
			changed := false
			// x := y.(type): the symbolic variable has no object of its own
			tsw := map[*ast.Ident]bool{}
			ast.Inspect(f, func(nd ast.Node) bool {
				if ts, ok := nd.(*ast.TypeSwitchStmt); ok {
					if as, ok := ts.Assign.(*ast.AssignStmt); ok && len(as.Lhs) == 1 {
						if id, ok := as.Lhs[0].(*ast.Ident); ok && *mode != "recv" {
							tsw[id] = true
						}
					}
				}
				return true
			})
			ast.Inspect(f, func(nd ast.Node) bool {
				id, ok := nd.(*ast.Ident)
				if !ok {
					return true
				}
				if tsw[id] {
					id.Name = "zz" + id.Name
					changed = true
					return true
				}
				obj := p.TypesInfo.Defs[id]
				if obj == nil {
					obj = p.TypesInfo.Uses[id]
				}
				if obj != nil && want(obj) {
					id.Name = "zz" + id.Name
					changed = true
				}
				return true
			})
			if !changed {
				continue
			}
			var buf bytes.Buffer
			if err := format.Node(&buf, p.Fset, f); err != nil {
				fmt.Fprintln(os.Stderr, path, err)
				os.Exit(2)
			}
			os.WriteFile(path, buf.Bytes(), 0644)
			n++
		}
	}
	fmt.Printf("mech %s: %d files rewritten\n", *mode, n)
	_ = token.NoPos
}
