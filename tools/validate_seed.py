#!/usr/bin/env python3
"""Confirms a seeded change in a scratch worktree of /repo's HEAD and stores it under /verif/seeded/.

usage: tools/validate_seed.py <seed-dir> <k> <seed-id>
  <seed-dir>/patch<k>[.rebased].diff, demo<k>_test.go, meta<k>.json (as delivered by a sub-agent)

Steps (all in $VAL_WT, default /tmp/wt/val, removed afterwards): apply the patch; go build ./...; the 159 baseline
tests must still pass; copy the demo into demo_dir and run demo_cmd -> must FAIL; revert the patch
-> the same demo must PASS.  On success writes /verif/seeded/<seed-id>/{patch.diff,demo_test.go,meta.json}.
"""
import json, os, shutil, subprocess, sys

seed_dir, k, sid = sys.argv[1], sys.argv[2], sys.argv[3]
env = dict(os.environ, GOFLAGS="-mod=mod", GOPROXY="off", GOSUMDB="off", GOTOOLCHAIN="local")
wt = os.environ.get("VAL_WT", "/tmp/wt/val")

def sh(cmd, cwd=None, ok_codes=(0,)):
    p = subprocess.run(cmd, shell=True, cwd=cwd, env=env, capture_output=True, text=True, errors="replace")
    return p.returncode, (p.stdout + p.stderr)

patch = os.path.join(seed_dir, f"patch{k}.rebased.diff")
rebased = os.path.exists(patch)
if not rebased:
    patch = os.path.join(seed_dir, f"patch{k}.diff")
meta = json.load(open(os.path.join(seed_dir, f"meta{k}.json")))
demo = os.path.join(seed_dir, f"demo{k}_test.go")
res = {"seed": sid, "patch": os.path.basename(patch)}

sh(f"git -C /repo worktree remove --force {wt}")
shutil.rmtree(wt, ignore_errors=True)
rc, out = sh(f"git -C /repo worktree add -q --detach {wt} HEAD")
if rc:
    print(out); sys.exit(2)
try:
    head = sh("git rev-parse --short HEAD", wt)[1].strip()
    rc, out = sh(f"git apply {patch}", wt)
    if rc:
        rc, out = sh(f"git apply -3 {patch} && git reset -q", wt)
    if rc:
        print("PATCH DOES NOT APPLY", out); sys.exit(3)
    rc, out = sh("go build ./...", wt)
    res["builds"] = rc == 0
    rc, out = sh(f"/verif/tools/baseline.sh {wt}")
    res["baseline_with_change"] = out.strip().splitlines()[0] if out.strip() else ""
    base_ok = rc == 0
    demo_dst = os.path.join(wt, meta["demo_dir"], f"zz_seed_demo_test.go")
    shutil.copy(demo, demo_dst)
    rc_with, out_with = sh(meta["demo_cmd"], wt)
    res["demo_with_change"] = "FAIL" if rc_with else "pass"
    # revert the library change; only the demo remains (never git stash: shared between worktrees)
    sh("git checkout -- .", wt)
    shutil.copy(demo, demo_dst)
    rc_wo, out_wo = sh(meta["demo_cmd"], wt)
    res["demo_without_change"] = "pass" if rc_wo == 0 else "FAIL"
    ok = res["builds"] and base_ok and rc_with != 0 and rc_wo == 0
    res["confirmed"] = ok
    print(json.dumps(res))
    if not ok:
        print("--- with change:\n", out_with[-1500:], "\n--- without:\n", out_wo[-1500:])
        sys.exit(1)
    dst = f"/verif/seeded/{sid}"
    os.makedirs(dst, exist_ok=True)
    # store the patch as it applies to the validated HEAD
    sh(f"git apply {patch} || (git apply -3 {patch} && git reset -q)", wt)
    os.remove(demo_dst)
    rc, diff = sh("git diff", wt)
    open(os.path.join(dst, "patch.diff"), "w").write(diff)
    shutil.copy(demo, os.path.join(dst, "demo_test.go"))
    out_meta = {
        "property": meta["property"],
        "summary": meta.get("summary", ""),
        "needs_to_manifest": meta.get("needs", ""),
        "demo_dir": meta["demo_dir"],
        "demo_cmd": meta["demo_cmd"].replace("demo", "demo"),
        "files_touched": meta.get("files_touched", []),
        "validated_against_repo_head": head,
        "what_was_run": [
            "git worktree of /repo HEAD under /tmp; git apply patch.diff; go build ./...",
            "tools/baseline.sh <worktree>: " + res["baseline_with_change"],
            "demo copied into demo_dir as zz_seed_demo_test.go; demo_cmd with the change: " + res["demo_with_change"],
            "git checkout -- . ; demo_cmd without the change: " + res["demo_without_change"],
        ],
        "origin": "written by an independent sub-agent that was given only the property text and a scratch worktree" + (" (patch re-based by hand onto the repaired tree)" if rebased else ""),
    }
    json.dump(out_meta, open(os.path.join(dst, "meta.json"), "w"), indent=1)
finally:
    sh(f"git -C /repo worktree remove --force {wt}")
    shutil.rmtree(wt, ignore_errors=True)
    sh("git -C /repo worktree prune")
