#!/bin/bash
# tools/tryseed.sh <patch.diff> <prop> [<prop>...]: apply a seeded change to /repo, run the
# quick checks of the given properties, and undo the change straight afterwards.
P=$(readlink -f "$1"); shift
cd /repo || exit 2
if ! git diff --quiet; then echo "/repo is dirty"; exit 2; fi
if ! git apply "$P" 2>/dev/null; then
  if ! git apply -3 "$P" 2>/dev/null; then echo "patch does not apply: $P"; git reset -q --hard HEAD ; exit 3; fi
  git reset -q
fi
rc=0
for prop in "$@"; do
  out=$(cd /verif && bin/p9check -prop $prop -tier quick -evidence /tmp/tryseed.$$.json 2>&1)
  if echo "$out" | grep -q "^VIOLATION"; then
    echo "== $prop DETECTS $(basename $(dirname $P))/$(basename $P):"; echo "$out" | grep -A2 "^VIOLATION" | grep -v "^VIOLATION" | head -6
  else
    echo "== $prop silent on $(basename $(dirname $P))/$(basename $P)"; rc=1
  fi
done
rm -f /tmp/tryseed.$$.json
git -C /repo checkout -- . ; git -C /repo clean -fdq -- p9 fsimpl vecnet linux 2>/dev/null
exit $rc
