#!/bin/bash
# tools/regress_matrix.sh: for every fix: commit of /repo, /verif/regress/<commit>/patch.diff is the
# reverse of the fix (it re-introduces the defect).  Each is applied to /repo, the quick check of the
# property recorded in meta.json is run, and the patch is undone.  Every revert must be reported.
cd /verif || exit 2
missed=0
for d in regress/*/; do
  c=$(basename $d)
  prop=$(python3 -c "import json;print(json.load(open('$d/meta.json'))['property'])")
  if ! git -C /repo diff --quiet; then echo "/repo dirty"; exit 2; fi
  if ! git -C /repo apply /verif/$d/patch.diff 2>/dev/null; then echo "$c ($prop): PATCH DOES NOT APPLY"; continue; fi
  out=$(${P9BIN:-bin/p9check} -prop $prop -tier quick -evidence /tmp/regress.$prop.json 2>&1)
  git -C /repo checkout -- . ; git -C /repo clean -fdq -- p9 fsimpl vecnet linux 2>/dev/null
  if echo "$out" | grep -q "^VIOLATION property=$prop"; then
    echo "$c ($prop): DETECTED  $(echo "$out" | grep -A1 '^VIOLATION' | sed -n 2p | cut -c1-120)"
  else
    echo "$c ($prop): MISSED"; missed=$((missed+1))
  fi
done
echo "reverts not reported: $missed"
