#!/bin/bash
# tools/refactor_matrix.sh <dir-with-*.diff> ...: apply each behaviour-preserving refactoring to /repo,
# run every claimed check (quick), undo it, and list the checks that raise an alarm (any alarm here is
# a false alarm of the checker).  Prints one line per diff.
cd /verif || exit 2
PROPS=$(python3 -c "import json;print(' '.join(c['property_id'] for c in json.load(open('MANIFEST.json'))['checks']))")
TMP=$(mktemp -d)
for d in "$@"; do
 for f in $(ls $(readlink -f $d)/*.diff | sort -V); do
  if ! git -C /repo diff --quiet; then echo "/repo dirty"; exit 2; fi
  if ! git -C /repo apply $f 2>/dev/null; then echo "$f: PATCH DOES NOT APPLY"; continue; fi
  for p in $PROPS; do ( ${P9BIN:-bin/p9check} -prop $p -tier quick -evidence $TMP/$p.json > $TMP/$p.out 2>&1 ) & done; wait
  git -C /repo checkout -- . ; git -C /repo clean -fdq -- p9 fsimpl vecnet linux 2>/dev/null
  alarms=""
  for p in $PROPS; do
    if grep -q "^VIOLATION" $TMP/$p.out; then
      n=$(grep -c "^VIOLATION" $TMP/$p.out)
      alarms="$alarms $p($n)"
      cp $TMP/$p.out $TMP/$(basename $(dirname $f))-$(basename $f .diff)-$p.alarm
    fi
  done
  echo "$(basename $(dirname $f))/$(basename $f): ${alarms:- silent}"
 done
done
echo "details: $TMP/*.alarm"
