#!/bin/bash
# tools/on_patch.sh <patch.diff> <props...>: development helper. Applies the patch to a throw-away
# worktree of /repo under /tmp, runs the given quick checks against it with -repo (binary: $P9BIN or
# bin/p9check), prints the violations and removes the worktree. (The registered checks and the matrices
# always run against /repo itself; this is only for iterating on rules while /repo is busy.)
cd /verif || exit 2
patch=$(readlink -f "$1"); shift
BIN=${P9BIN:-bin/p9check}
wt=$(mktemp -d /tmp/rx/op.XXXXXX)
rmdir $wt
git -C /repo worktree add -q --detach $wt HEAD || exit 2
if ! git -C $wt apply $patch; then echo "PATCH DOES NOT APPLY"; git -C /repo worktree remove --force $wt; exit 2; fi
for p in "$@"; do
  ( $BIN -prop $p -tier quick -repo $wt -evidence $wt.$p.json > $wt.$p.out 2>&1 ) &
done; wait
for p in "$@"; do
  grep -A3 "^VIOLATION" $wt.$p.out | grep -v "^--" | sed "s|$wt/||"
  tail -1 $wt.$p.out
  rm -f $wt.$p.out $wt.$p.json
done
git -C /repo worktree remove --force $wt
