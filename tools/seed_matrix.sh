#!/bin/bash
# tools/seed_matrix.sh [seed-id ...]: for every seeded change under /verif/seeded, apply it to /repo,
# run the quick check of EVERY claimed property (in parallel), undo it, and record which checks report
# a violation.  Writes /verif/seeded/MATRIX.md.  /repo must be clean; it is restored after each seed.
cd /verif || exit 2
PROPS=$(python3 -c "import json;print(' '.join(c['property_id'] for c in json.load(open('MANIFEST.json'))['checks']))")
SEEDS="$@"
[ -z "$SEEDS" ] && SEEDS=$(ls seeded | grep -E '^C[0-9]+-[0-9]+$' | sort -V)
OUT=${MATRIX_OUT:-/verif/seeded/MATRIX.md}
TMP=$(mktemp -d)
echo "# Which check catches which seeded change" > $OUT
echo >> $OUT
echo "Produced by tools/seed_matrix.sh: each seeded change (written by an independent sub-agent for the property in its id, confirmed in a scratch worktree) is applied to /repo, every claimed property's quick check is run, and the change is undone. 'own' = the check of the property the seed was written for." >> $OUT
echo >> $OUT
echo "| seed | own check | first obligation reported by the own check | other checks that also report it |" >> $OUT
echo "|---|---|---|---|" >> $OUT
missed=0
for s in $SEEDS; do
  if ! git -C /repo diff --quiet; then echo "/repo dirty"; exit 2; fi
  if ! git -C /repo apply /verif/seeded/$s/patch.diff 2>/dev/null; then echo "| $s | PATCH DOES NOT APPLY | | |" >> $OUT; continue; fi
  own=${s%%-*}
  for p in $PROPS; do
    ( ${P9BIN:-bin/p9check} -prop $p -tier quick -evidence $TMP/$p.json > $TMP/$s.$p.out 2>&1 ) &
  done
  wait
  git -C /repo checkout -- . ; git -C /repo clean -fdq -- p9 fsimpl vecnet linux 2>/dev/null
  others=""
  ownres="silent"
  first=""
  for p in $PROPS; do
    if grep -q "^VIOLATION" $TMP/$s.$p.out; then
      if [ "$p" = "$own" ]; then
        ownres="DETECTS"
        first=$(grep -A1 "^VIOLATION" $TMP/$s.$p.out | sed -n 2p | sed 's/^ *//' | cut -c1-160 | tr '|' '/')
      else
        others="$others $p"
      fi
    fi
  done
  [ "$ownres" = "silent" ] && missed=$((missed+1))
  echo "| $s | $ownres | $first |$others |" >> $OUT
  echo "$s: own=$ownres others:$others"
done
echo >> $OUT
echo "Seeds not reported by the check of their own property: $missed" >> $OUT
rm -rf $TMP
# evidence files were redirected; make sure the repo is clean
git -C /repo status --short | head -3
