#!/bin/bash
# tools/allquick.sh [repo]: run every claimed quick check in parallel (binary: $P9BIN or bin/p9check)
# against the given tree (default /repo) and print one summary line per property.
cd /verif || exit 2
BIN=${P9BIN:-bin/p9check}
REPO=${1:-/repo}
PROPS=$(python3 -c "import json;print(' '.join(c['property_id'] for c in json.load(open('MANIFEST.json'))['checks']))")
TMP=$(mktemp -d)
for p in $PROPS; do ( $BIN -prop $p -tier quick -repo $REPO -evidence $TMP/$p.json > $TMP/$p.out 2>&1 ) & done; wait
for p in $PROPS; do tail -1 $TMP/$p.out; grep -A2 "^VIOLATION" $TMP/$p.out | grep -v "^VIOLATION\|^--" | cut -c1-300 | head -${MAXV:-6}; done
rm -rf $TMP
