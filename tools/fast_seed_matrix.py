#!/usr/bin/env python3
"""tools/fast_seed_matrix.py <dir-with-fast_matrix-outputs> > seeded/MATRIX.md

Writes the seed matrix from the outputs of tools/fast_matrix.sh (p9check -alarms: the rules of all
twenty properties run in one process on a scratch worktree with the seed applied).  Same rules and
loader as the registered per-property commands; tools/seed_matrix.sh produces the same table with the
registered commands on /repo itself (about an hour)."""
import glob, os, re, sys
d = sys.argv[1]
rows = []
missed = 0
for f in sorted(glob.glob(os.path.join(d, "C*-patch.out")), key=lambda p: [int(x) if x.isdigit() else x for x in re.split(r"(\d+)", os.path.basename(p))]):
    sid = os.path.basename(f)[:-len("-patch.out")]
    own = sid.split("-")[0]
    props, first = [], ""
    for line in open(f, errors="replace"):
        if not line.startswith("ALARM "):
            continue
        parts = line.split(" ", 2)
        p = parts[1]
        if p not in props:
            props.append(p)
        if p == own and not first:
            first = parts[2].strip()[:170].replace("|", "/")
    ownres = "DETECTS" if own in props else "silent"
    if ownres == "silent":
        missed += 1
    rows.append(f"| {sid} | {ownres} | {first} | {' '.join(p for p in sorted(props) if p != own)} |")
print("# Which check catches which seeded change\n")
print("Produced by tools/fast_matrix.sh + tools/fast_seed_matrix.py: each seeded change (written by an independent sub-agent for the property in its id, confirmed in a scratch worktree) is applied to a throw-away worktree of /repo, the rules of every claimed property are run on it (p9check -alarms: one load, all properties) and the worktree is removed. 'own' = the rules of the property the seed was written for. tools/seed_matrix.sh produces the same table by running the registered quick commands on /repo itself.\n")
print("| seed | own check | first obligation reported by the own check | other checks that also report it |")
print("|---|---|---|---|")
print("\n".join(rows))
print(f"\n{len(rows)} seeds, {len(rows)-missed} reported by their own check, {missed} not.")
