#!/bin/bash
# tools/mutant.sh <file-in-repo> <python-replace: OLD=>NEW> <props...>: development helper. Makes a
# throw-away worktree of /repo, replaces the first occurrence of OLD by NEW in the file (literal
# text, \n allowed), checks that the tree still builds, runs the quick checks with -repo and
# removes the worktree.  Used to confirm that a rule still fires after it was generalised.
cd /verif || exit 2
file=$1; repl=$2; shift 2
BIN=${P9BIN:-bin/p9check}
mkdir -p /tmp/rx
wt=$(mktemp -d /tmp/rx/mu.XXXXXX); rmdir $wt
git -C /repo worktree add -q --detach $wt HEAD || exit 2
python3 - "$wt/$file" "$repl" <<'PY'
import sys
p, repl = sys.argv[1], sys.argv[2]
old, new = repl.split("=>", 1)
old = old.encode().decode('unicode_escape'); new = new.encode().decode('unicode_escape')
s = open(p).read()
if old not in s:
    print("MUTANT: pattern not found"); sys.exit(3)
open(p, 'w').write(s.replace(old, new, 1))
PY
rc=$?
if [ $rc -eq 0 ]; then
  if ! (cd $wt && GOFLAGS=-mod=mod GOPROXY=off GOSUMDB=off GOTOOLCHAIN=local go build ./... 2>&1 | head -5 | grep .); then
    for p in "$@"; do ( $BIN -prop $p -tier quick -repo $wt -evidence $wt.$p.json > $wt.$p.out 2>&1 ) & done; wait
    for p in "$@"; do grep -A2 "^VIOLATION" $wt.$p.out | grep -v "^--\|^VIOLATION" | sed "s|$wt/||" | cut -c1-260 | head -${MAXV:-4}; tail -1 $wt.$p.out; rm -f $wt.$p.out $wt.$p.json; done
  else echo "MUTANT DOES NOT BUILD"; fi
fi
git -C /repo worktree remove --force $wt
